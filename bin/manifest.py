#!/usr/bin/env python3
"""Regenerates MANIFEST.json's checks/not_applicable from bin/props.json (one source of truth)."""
import json, os
V=os.path.dirname(os.path.dirname(os.path.abspath(__file__)))
m=json.load(open(os.path.join(V,'MANIFEST.json')))
props=json.load(open(os.path.join(V,'bin','props.json')))
ids=[json.loads(l)['id'] for l in open(os.path.join(V,'properties.jsonl'))]
checks=[];na=[]
for i in ids:
    p=props.get(i)
    if p and p.get('claimed'):
        checks.append({"property_id":i,"quick_cmd":f"bin/check {i} quick","thorough_cmd":f"bin/check {i} thorough",
          "evidence_file":f"/verif/evidence/{i}.json","replay_cmd_template":f"bin/check {i} --replay {{path}}","engine":"harness",
          "level_claimed":{"category":"exploration","text":p['level_text'],"design_ref":p.get('design_ref',f"DESIGN.md §7 {i}")},
          "level_note":p['level_note'],"technique":p['technique']})
    else:
        na.append({"property_id":i,"reason":(p or {}).get('na_reason',"check not built yet (work in progress); will be claimed once its generator and oracle exist")})
m['checks']=checks; m['not_applicable']=na
m['engines'][0]['serves_properties']=[c['property_id'] for c in checks]
json.dump(m,open(os.path.join(V,'MANIFEST.json'),'w'),indent=1)
print(len(checks),"claimed;",len(na),"not applicable")
