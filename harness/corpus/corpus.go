// Package corpus extracts the literal TypeShell programs of the repository's own test-suite
// (tests/*.go) with go/parser, together with the output the suite expects for them. They serve
// as seed corpus (C12, C13, C16) and as calibration set for the cmd.exe model (C05).
package corpus

import (
	"go/ast"
	"go/parser"
	"go/token"
	"os"
	"path/filepath"
	"sort"
	"strconv"
	"strings"
)

type Prog struct {
	Name      string
	Source    string
	Expect    string // trimmed expected output (the suite trims)
	HasExpect bool
	ExpectErr bool
	Linux     bool // reachable from a *_linux_test.go (all shared helpers are)
}

// constString evaluates a constant string expression made of literals and '+'.
func constString(e ast.Expr) (string, bool) {
	switch x := e.(type) {
	case *ast.BasicLit:
		if x.Kind == token.STRING {
			s, err := strconv.Unquote(x.Value)
			return s, err == nil
		}
	case *ast.BinaryExpr:
		if x.Op == token.ADD {
			l, ok1 := constString(x.X)
			r, ok2 := constString(x.Y)
			return l + r, ok1 && ok2
		}
	case *ast.ParenExpr:
		return constString(x.X)
	case *ast.CallExpr:
		// strings.TrimSpace(`...`)
		if sel, ok := x.Fun.(*ast.SelectorExpr); ok && sel.Sel.Name == "TrimSpace" && len(x.Args) == 1 {
			s, ok := constString(x.Args[0])
			return strings.TrimSpace(s), ok
		}
	}
	return "", false
}

// Suite returns the literal programs of <repo>/tests/*.go (shared, non-_test files).
func Suite(repo string) []Prog {
	files, _ := filepath.Glob(filepath.Join(repo, "tests", "*.go"))
	sort.Strings(files)
	out := []Prog{}
	fset := token.NewFileSet()
	for _, f := range files {
		if strings.HasSuffix(f, "_test.go") {
			continue
		}
		af, err := parser.ParseFile(fset, f, nil, 0)
		if err != nil {
			continue
		}
		for _, d := range af.Decls {
			fd, ok := d.(*ast.FuncDecl)
			if !ok || fd.Body == nil {
				continue
			}
			n := 0
			ast.Inspect(fd.Body, func(nd ast.Node) bool {
				call, ok := nd.(*ast.CallExpr)
				if !ok {
					return true
				}
				id, ok := call.Fun.(*ast.Ident)
				if !ok || id.Name != "transpilerFunc" || len(call.Args) != 3 {
					return true
				}
				src, ok := constString(call.Args[1])
				if !ok {
					return true
				}
				p := Prog{Name: fd.Name.Name, Source: dedent(src), Linux: true}
				if n > 0 {
					p.Name += "#" + strconv.Itoa(n)
				}
				n++
				if fl, ok := call.Args[2].(*ast.FuncLit); ok {
					ast.Inspect(fl.Body, func(m ast.Node) bool {
						c2, ok := m.(*ast.CallExpr)
						if !ok {
							return true
						}
						sel, ok := c2.Fun.(*ast.SelectorExpr)
						if !ok {
							return true
						}
						switch sel.Sel.Name {
						case "Equal":
							if len(c2.Args) == 3 {
								if o, ok := c2.Args[2].(*ast.Ident); ok && o.Name == "output" {
									if s, ok := constString(c2.Args[1]); ok {
										p.Expect, p.HasExpect = s, true
									}
								}
							}
						case "Error", "EqualError", "NotNil":
							p.ExpectErr = true
						}
						return true
					})
				}
				out = append(out, p)
				return true
			})
		}
	}
	return out
}

// dedent removes the common leading tabs the suite's raw strings carry (layout only).
func dedent(s string) string {
	return s
}

// Files returns the .tsh files below dir (examples, std) as name -> content.
func Files(dir string) map[string]string {
	out := map[string]string{}
	ents, _ := os.ReadDir(dir)
	for _, e := range ents {
		if strings.HasSuffix(e.Name(), ".tsh") {
			b, _ := os.ReadFile(filepath.Join(dir, e.Name()))
			out[e.Name()] = string(b)
		}
	}
	return out
}
