package checks

import (
	"context"
	"encoding/json"
	"fmt"
	"os"
	"os/exec"
	"path/filepath"
	"strings"
	"sync"
	"testing"
	"time"

	"github.com/monstermichl/typeshell/lexer"
	"pgregory.net/rapid"
	"verif/harness/corpus"
	"verif/harness/gen"
	"verif/harness/lexref"
	"verif/harness/rep"
	"verif/harness/run"
	"verif/harness/ts"
)

// TestWorker is the child-process worker (see run/worker.go).
func TestWorker(t *testing.T) {
	if os.Getenv("VERIF_WORKER") != "1" {
		t.Skip("not a worker")
	}
	run.ServeWorker()
}

// C13 — transpilation is total: a script or an error, never a crash or a hang.

type totalCase struct {
	Kind     string            `json:"kind"` // "total"
	Property string            `json:"property"`
	Files    map[string]string `json:"files"` // may contain invalid UTF-8: stored as Go strings -> JSON escapes; use FilesB64 for bytes
	FilesHex map[string]string `json:"files_hex,omitempty"`
	Dirs     []string          `json:"dirs,omitempty"`
	Main     string            `json:"main"`
	Note     string            `json:"note,omitempty"`
}

func hexEnc(s string) string { return fmt.Sprintf("%x", s) }
func hexDec(s string) string {
	var out []byte
	fmt.Sscanf(s, "%x", &out)
	return string(out)
}

var (
	c13PoolMu sync.Mutex
	c13Pool   = &run.Pool{}
)

// checkTotal runs the case in a worker and returns ("", "") if the totality contract holds.
func checkTotal(c totalCase) (kind string, msg string, stage string) {
	dir := run.Scratch("tot")
	defer os.RemoveAll(dir)
	for _, d := range c.Dirs {
		os.MkdirAll(filepath.Join(dir, d), 0o755)
	}
	files := map[string]string{}
	for k, v := range c.Files {
		files[k] = v
	}
	for k, v := range c.FilesHex {
		files[k] = hexDec(v)
	}
	for k, v := range files {
		files[k] = strings.ReplaceAll(v, "{ROOT}", dir) // absolute import paths name the scratch directory
	}
	run.WriteFiles(dir, files)
	c13PoolMu.Lock()
	defer c13PoolMu.Unlock()
	resp, outcome, err := c13Pool.Transpile(run.WReq{Path: filepath.Join(dir, c.Main), Targets: []string{"bash", "batch"}}, 20*time.Second, 60*time.Second)
	if err != nil {
		return "harness", err.Error(), ""
	}
	switch outcome {
	case "timeout":
		return "hang", "transpilation did not return within 60 s (confirmed in a fresh worker)", ""
	case "died":
		return "died", "the worker process died (fatal error such as unbounded recursion) — confirmed in a fresh worker", ""
	}
	for _, r := range resp.Results {
		switch {
		case r.Verdict == "panic":
			return "panic", r.Target + ": " + r.Err, "panic"
		case r.ScriptAndError:
			return "script-and-error", r.Target + " returned a script together with an error", ""
		case r.EmptyError:
			return "empty-error", r.Target + " returned an empty error", ""
		case r.Verdict == "accept" && r.Len == 0:
			return "empty-script", r.Target + " returned neither script nor error", ""
		}
		stage = r.Verdict
	}
	return "", "", stage
}

func init() {
	replayFuncs["total"] = func(raw json.RawMessage) (bool, string) {
		var c totalCase
		json.Unmarshal(raw, &c)
		k, msg, _ := checkTotal(c)
		return k == "", k + ": " + msg
	}
}

var c13Dict = []string{"import", "var", "func", "return", "if", "else", "switch", "case", "default", "for", "range", "break", "continue", "nil",
	"len", "print", "input", "copy", "itoa", "exists", "read", "write", "panic", "bool", "int", "string", "error", "true", "false",
	"(", ")", "[", "]", "{", "}", "==", "!=", "<=", ">=", "<", ">", "&&", "||", "+=", "-=", "*=", "/=", "%=", "=", ":=", "++", "--", "!", "+", "-", "*", "/", "%",
	",", ":", ";", ".", "@", "|", "\n", "\n", "\n", " ", "\t", "\"", "`", "/*", "*/", "//", "\\", "\r", "\x00", "\xc3", "é", "x", "y", "f", "1", "0", "-1", "\"s\"", "[]int", "[]string{}", "a.b", "strings"}

type tokLine []lexref.Tok

func renderToks(toks []lexref.Tok) string {
	var sb strings.Builder
	for i, tk := range toks {
		if tk.Type == lexer.NEWLINE {
			sb.WriteByte('\n')
			continue
		}
		if i > 0 && toks[i-1].Type != lexer.NEWLINE {
			sb.WriteByte(' ')
		}
		sb.WriteString(tk.Text)
	}
	return sb.String()
}

var (
	c13CorpusOnce sync.Once
	c13Corpus     [][]lexref.Tok
	c13CorpusSrc  []string
)

func loadC13Corpus() {
	repo := os.Getenv("VERIF_REPO")
	if repo == "" {
		repo = "/repo"
	}
	srcs := []string{}
	for _, p := range corpus.Suite(repo) {
		srcs = append(srcs, p.Source)
	}
	for _, d := range []string{"examples", "std"} {
		m := corpus.Files(filepath.Join(repo, d))
		for _, k := range run.SortedKeys(m) {
			srcs = append(srcs, m[k])
		}
	}
	for _, s := range srcs {
		toks, _, err := lexref.Lex(s)
		if err == nil && len(toks) > 0 {
			c13Corpus = append(c13Corpus, toks)
			c13CorpusSrc = append(c13CorpusSrc, s)
		}
	}
}

func TestC13(t *testing.T) {
	r, e := start(t, "C13",
		"(0) exhaustively every file of one or two lexemes from a 46-entry vocabulary, with and without a final line break; (0a) break / continue / return / func / import / panic in 19 kinds of context; (0b) every typed position of C06's table x every offered type and shape (totality only); (0c) call graphs of 2-90 functions (chain, Fibonacci-shaped, dense, fan-out, inside an imported file); (0d) deeply nested inputs (parentheses, negations, blocks, loops, indices, calls, closed and unclosed) of depth 40 to 1,000,000 run through the tsh command itself; (a) byte strings built from a dictionary of keywords, operators, quotes, comment markers, control and non-UTF-8 bytes; (b) token soup from the token vocabulary; (c) near misses: 1-2 token deletions, insertions, duplications, replacements, swaps and operand re-shapings (an operand parenthesised, indexed, sliced, turned into a call, a literal slice or a builtin result) applied to valid programs (the suite's sources, examples, std/*.tsh, generated programs); (d) import graphs over <= 4 files with every kind of edge (self-import, 2- and 3-cycles, missing files, directories, invalid imported files), main path missing or a directory. Each input is transpiled for both targets in a child worker process. Oracle: (script, nil) or (\"\", non-empty error); no panic, no worker death, no run beyond 60 s. Non-trivial = inputs that pass the lexer (they reach parser/transpiler code); distinct by input bytes.",
		[]string{"a hang is decided by a 20 s watchdog, confirmed once in a fresh worker with 60 s (normal inputs take < 50 ms)", "super-linear slowness on inputs far larger than 2 KiB is not explored"})
	defer r.Flush()
	defer c13Pool.Close()
	c13CorpusOnce.Do(loadC13Corpus)
	if len(c13Corpus) < 50 {
		r.HarnessError("suite corpus too small: %d programs", len(c13Corpus))
		return
	}
	r.SetExtra("n_corpus_programs", len(c13Corpus))

	// deterministic import-graph cases (shard 0)
	if e.Shard == 0 {
		fixed := []totalCase{
			{Files: map[string]string{"main.tsh": "import a \"main.tsh\"\n"}, Main: "main.tsh", Note: "self-import"},
			{Files: map[string]string{"main.tsh": "import a \"a.tsh\"\nprint(1)\n", "a.tsh": "import m \"main.tsh\"\n"}, Main: "main.tsh", Note: "2-cycle"},
			{Files: map[string]string{"main.tsh": "import a \"a.tsh\"\n", "a.tsh": "import b \"b.tsh\"\n", "b.tsh": "import a \"a.tsh\"\n"}, Main: "main.tsh", Note: "cycle-below-main"},
			{Files: map[string]string{"main.tsh": "import a \"a.tsh\"\n", "a.tsh": "import b \"b.tsh\"\n", "b.tsh": "import c \"c.tsh\"\n", "c.tsh": "import a \"a.tsh\"\n"}, Main: "main.tsh", Note: "3-cycle"},
			{Files: map[string]string{"main.tsh": "import a \"missing.tsh\"\n"}, Main: "main.tsh", Note: "missing-import"},
			{Files: map[string]string{"main.tsh": "import b \"{ROOT}/./b.tsh\"\nprint(1)\n", "b.tsh": "import b \"{ROOT}/./b.tsh\"\nprint(2)\n"}, Main: "main.tsh", Note: "self-import-by-unclean-absolute-path"},
			{Files: map[string]string{"main.tsh": "import b \"{ROOT}//b.tsh\"\n", "b.tsh": "import c \"{ROOT}/sub/../c.tsh\"\n", "c.tsh": "import b \"{ROOT}/./b.tsh\"\n"}, Dirs: []string{"sub"}, Main: "main.tsh", Note: "2-cycle-by-unclean-absolute-paths"},
			{Files: map[string]string{"main.tsh": "import m \"{ROOT}/./main.tsh\"\n"}, Main: "main.tsh", Note: "main-self-import-by-unclean-absolute-path"},
			{Files: map[string]string{"main.tsh": "import a \"d\"\n"}, Dirs: []string{"d"}, Main: "main.tsh", Note: "directory-import"},
			{Files: map[string]string{"x.tsh": "print(1)\n"}, Main: "main.tsh", Note: "missing-main"},
			{Files: map[string]string{"x.tsh": "print(1)\n"}, Dirs: []string{"main.tsh"}, Main: "main.tsh", Note: "main-is-directory"},
			{Files: map[string]string{"main.tsh": "func f() {\n}\nif f() {\n}\n"}, Main: "main.tsh", Note: "void-call-as-condition"},
			{Files: map[string]string{"main.tsh": "func f() {\n}\ny := 1 + f()\n"}, Main: "main.tsh", Note: "void-call-as-operand"},
			{Files: map[string]string{"main.tsh": "switch 1 {\ncase 1:\nbreak\n}\n"}, Main: "main.tsh", Note: "break-in-switch"},
			{Files: map[string]string{"main.tsh": ""}, Main: "main.tsh", Note: "empty-file"},
		}
		for _, c := range fixed {
			c.Kind, c.Property = "total", "C13"
			r.Eval()
			r.NonTrivial(c.Note, map[string]any{"files": c.Files, "note": c.Note})
			if kind, msg, _ := checkTotal(c); kind != "" {
				if kind == "harness" {
					r.HarnessError("%s", msg)
					return
				}
				r.Violate(rep.Sig{"kind": kind, "input": c.Note}, c.Note+": "+msg, c)
			}
		}
	}

	// exhaustive: every file made of one or two lexemes of a small vocabulary (look-behind / look-ahead at the very
	// start and end of a file), with and without a final line break
	{
		vocab := []string{"x", "1", "-1", "-", "+", "(", ")", "[", "]", "{", "}", ",", ":", ".", "=", ":=", "==", "!", "&&", "++", "@", "|", "\"", "`", "\"s\"", "/*", "*/", "//", "/", "\\", "\n", " ", "\r", "\x00", "\xff", "func", "if", "for", "import", "return", "case", "var", "nil", "true", "print", "len"}
		inputs := []string{}
		for _, a := range vocab {
			inputs = append(inputs, a)
			for _, b := range vocab {
				inputs = append(inputs, a+b, a+" "+b)
			}
		}
		for i, in := range inputs {
			if !e.Mine(i) {
				continue
			}
			for _, tail := range []string{"", "\n"} {
				c := totalCase{Kind: "total", Property: "C13", FilesHex: map[string]string{"main.tsh": hexEnc(in + tail)}, Main: "main.tsh", Note: "tiny-input"}
				r.Eval()
				r.Class("tiny-input")
				if kind, msg, _ := checkTotal(c); kind != "" {
					if kind == "harness" {
						r.HarnessError("%s", msg)
						return
					}
					r.Violate(rep.Sig{"kind": kind, "input": "tiny"}, fmt.Sprintf("tiny input %q: %s", in+tail, msg), c)
				}
			}
		}
		r.SetExtra("n_tiny_inputs", 2*len(inputs))
	}

	// jump statements in every kind of context (totality only: C07 decides which are legal)
	if e.Shard == 0 {
		ctxs := []struct{ name, open, close string }{
			{"top", "", ""}, {"if", "if cv {\n", "}\n"}, {"else", "if cw {\n} else {\n", "}\n"}, {"elif", "if cw {\n} else if cv {\n", "}\n"},
			{"case", "switch iv {\ncase 1:\n", "}\n"}, {"default", "switch iv {\ndefault:\n", "}\n"}, {"tagless-case", "switch {\ncase cv:\n", "}\n"},
			{"for", "for k := 0; k < 1; k++ {\n", "}\n"}, {"for-cond", "for cw {\n", "}\n"}, {"for-ever-if", "for {\nif cv {\n", "}\nbreak\n}\n"}, {"range", "for ri, rv := range lv {\n", "}\n"},
			{"case-in-for", "for k := 0; k < 1; k++ {\nswitch iv {\ncase 1:\n", "}\n}\n"}, {"for-in-case", "switch iv {\ncase 1:\nfor k := 0; k < 1; k++ {\n", "}\n}\n"},
			{"func", "func jf() {\n", "}\njf()\n"}, {"func-int", "func jf() int {\n", "return 2\n}\nprint(jf())\n"}, {"func-if", "func jf() {\nif cv {\n", "}\n}\njf()\n"},
			{"func-case", "func jf() {\nswitch iv {\ncase 1:\n", "}\n}\njf()\n"}, {"func-for", "func jf() {\nfor k := 0; k < 1; k++ {\n", "}\n}\njf()\n"}, {"func-case-in-for", "func jf() int {\nfor k := 0; k < 1; k++ {\nswitch iv {\ncase 1:\n", "}\n}\nreturn 3\n}\nprint(jf())\n"},
		}
		for _, cx := range ctxs {
			for _, j := range []string{"break", "continue", "return", "return 1", "return 1, 2", "func inner() {\n}", "import q \"x.tsh\"", "panic(\"p\")", "break\ncontinue", "continue\nprint(1)"} {
				src := c07Prelude + cx.open + j + "\n" + cx.close
				c := totalCase{Kind: "total", Property: "C13", FilesHex: map[string]string{"main.tsh": hexEnc(src)}, Main: "main.tsh", Note: "jump-placement"}
				r.Eval()
				r.Class("jump-placement")
				if kind, msg, _ := checkTotal(c); kind != "" {
					if kind == "harness" {
						r.HarnessError("%s", msg)
						return
					}
					r.Violate(rep.Sig{"kind": kind, "input": "jump-placement", "context": cx.name, "jump": strings.SplitN(j, "\n", 2)[0]}, fmt.Sprintf("%q in context %s: %s", j, cx.name, msg), c)
				}
			}
		}
	}

	// deep nesting (through the tsh command: the stack limit is that of the real process)
	{
		for i, dc := range c13DeepCases() {
			if !e.Mine(i*5 + 3) {
				continue
			}
			r.Eval()
			r.Class("deep-nesting:" + dc.Shape)
			r.NonTrivial(fmt.Sprintf("deep:%s/%d", dc.Shape, dc.Depth), nil)
			if kind, msg := checkDeep(dc); kind != "" {
				if kind == "harness" {
					r.HarnessError("%s", msg)
					return
				}
				r.Violate(rep.Sig{"kind": kind, "input": "deep-nesting", "shape": dc.Shape}, msg, dc)
			}
		}
	}

	// call graphs: n functions, each calling earlier ones (chains, Fibonacci-shaped graphs f(i) -> f(i-1), f(i-2), dense graphs,
	// wide fan-out); bounded time means the walk over the call graph does not repeat shared callees over and over
	{
		idx := 0
		for _, shape := range []string{"chain", "fib", "dense", "fan-out", "fib-in-library"} {
			for _, n := range []int{2, 8, 24, 40, 64, 90} {
				idx++
				if !e.Mine(idx) {
					continue
				}
				var sb strings.Builder
				pub := func(i int) string { return fmt.Sprintf("f%d", i) }
				if shape == "fib-in-library" {
					pub = func(i int) string { return fmt.Sprintf("F%d", i) }
				}
				for i := 0; i < n; i++ {
					callees := []int{}
					switch shape {
					case "chain":
						if i > 0 {
							callees = []int{i - 1}
						}
					case "fib", "fib-in-library":
						if i > 1 {
							callees = []int{i - 1, i - 2}
						}
					case "dense":
						for j := 0; j < i; j++ {
							callees = append(callees, j)
						}
					case "fan-out":
						if i == n-1 {
							for j := 0; j < i; j++ {
								callees = append(callees, j)
							}
						}
					}
					body := "1"
					for _, j := range callees {
						body += " + " + pub(j) + "()"
					}
					sb.WriteString("func " + pub(i) + "() int {\n\treturn " + body + "\n}\n")
				}
				c := totalCase{Kind: "total", Property: "C13", Main: "main.tsh", Note: fmt.Sprintf("call-graph:%s/%d", shape, n)}
				if shape == "fib-in-library" {
					c.Files = map[string]string{"main.tsh": "import lb \"lib.tsh\"\nprint(lb." + pub(n-1) + "())\n", "lib.tsh": sb.String()}
				} else {
					sb.WriteString("print(" + pub(n-1) + "())\n")
					c.FilesHex = map[string]string{"main.tsh": hexEnc(sb.String())}
				}
				r.Eval()
				r.Class("call-graph:" + shape)
				r.NonTrivial(c.Note, nil)
				if kind, msg, _ := checkTotal(c); kind != "" {
					if kind == "harness" {
						r.HarnessError("%s", msg)
						return
					}
					r.Violate(rep.Sig{"kind": kind, "input": "call-graph", "shape": shape}, fmt.Sprintf("%d functions, call graph %s: %s", n, shape, msg), c)
				}
			}
		}
	}

	// every typed position of the grammar x every offered type and expression shape (the table of C06, top-level context):
	// here only totality counts - whatever is offered, the answer is a script or an error
	{
		idx := 0
		for _, p := range c06Positions() {
			for _, o := range c06Offers {
				if p.only != nil && !p.only(o) {
					continue // the same filter as in C06 keeps the programs meaningful for that position
				}
				idx++
				if !e.Mine(idx) {
					continue
				}
				src := c06Build(p, o, c06Contexts[0])
				c := totalCase{Kind: "total", Property: "C13", FilesHex: map[string]string{"main.tsh": hexEnc(src)}, Main: "main.tsh", Note: "typed-position"}
				r.Eval()
				r.Class("typed-position")
				if kind, msg, _ := checkTotal(c); kind != "" {
					if kind == "harness" {
						r.HarnessError("%s", msg)
						return
					}
					r.Violate(rep.Sig{"kind": kind, "input": "typed-position", "position": p.id, "shape": o.shape}, fmt.Sprintf("position %q offered %s (%s): %s", p.id, otyNames[o.ty], o.text, msg), c)
				}
			}
		}
	}

	gcfg := gen.Cfg{MaxStmts: 12, MaxDepth: 3, ExprDepth: 3, Funcs: true, MaxFuncs: 2, Slices: true, StrOps: true, LoopBudget: 8, IO: true, Panics: true, ErrSpell: true, BareExpr: true}
	checkRapid(t, r, func(t *rapid.T) {
		family := gen.Uniform(0, 9).Draw(t, "family")
		c := totalCase{Kind: "total", Property: "C13", Main: "main.tsh"}
		var input string
		switch {
		case family == 0: // dictionary bytes
			n := gen.Uniform(0, 60).Draw(t, "npieces")
			var sb strings.Builder
			for i := 0; i < n; i++ {
				if gen.Uniform(0, 9).Draw(t, "raw-byte") == 0 {
					sb.WriteByte(byte(gen.Uniform(0, 255).Draw(t, "byte")))
				} else {
					sb.WriteString(c13Dict[gen.Uniform(0, len(c13Dict)-1).Draw(t, "dict")])
				}
				if gen.Uniform(0, 2).Draw(t, "sp") == 0 {
					sb.WriteByte(' ')
				}
			}
			input = sb.String()
			c.Note = "dictionary-bytes"
		case family == 1: // token soup
			n := gen.Uniform(1, 40).Draw(t, "ntok")
			toks := []lexref.Tok{}
			var prev lexer.TokenType
			for i := 0; i < n; i++ {
				tk, _ := genC11Token(t, prev)
				toks = append(toks, tk.Tok)
				prev = tk.Type
			}
			input = renderToks(toks)
			c.Note = "token-soup"
		case family <= 7: // near misses of valid programs
			var toks []lexref.Tok
			if gen.Uniform(0, 3).Draw(t, "generated-base") == 0 {
				stmts, _ := gen.Stmts(t, gcfg)
				toks, _, _ = lexref.Lex(ts.StmtsString(stmts))
			} else {
				toks = c13Corpus[gen.Uniform(0, len(c13Corpus)-1).Draw(t, "corpus")]
			}
			toks = append([]lexref.Tok{}, toks...)
			nedit := gen.Uniform(1, 2).Draw(t, "nedits")
			ops := []string{}
			for k := 0; k < nedit && len(toks) > 0; k++ {
				i := gen.Uniform(0, len(toks)-1).Draw(t, "pos")
				switch op := []string{"delete", "insert", "duplicate", "replace", "swap", "truncate", "operand-shape", "operand-shape"}[gen.Uniform(0, 7).Draw(t, "edit")]; op {
				case "operand-shape":
					// an operand gets another SHAPE (code that expects "a plain variable here" must answer with an error):
					// parenthesised, indexed, sliced, a call, a slice literal, a builtin result
					for tries := 0; tries < 8 && toks[i].Type != lexer.IDENTIFIER && toks[i].Type != lexer.NUMBER_LITERAL && toks[i].Type != lexer.STRING_LITERAL; tries++ {
						i = gen.Uniform(0, len(toks)-1).Draw(t, "pos-operand")
					}
					txt := toks[i].Text
					forms := []string{"(" + txt + ")", "((" + txt + "))", txt + "[0]", txt + "[0:1]", txt + "()", "zzf(" + txt + ")", "[]int{}", "[]string{" + txt + "}", "len(" + txt + ")", "itoa(" + txt + ")", "!" + txt, "-" + txt, txt + "." + txt, "@" + txt + "()", "nil", "copy(" + txt + ", " + txt + ")", "input()", "read(" + txt + ")"}
					toks[i] = lexref.Tok{Type: lexer.IDENTIFIER, Text: forms[gen.Uniform(0, len(forms)-1).Draw(t, "shape")]}
					ops = append(ops, op)
				case "delete":
					toks = append(toks[:i], toks[i+1:]...)
					ops = append(ops, op)
				case "insert", "replace":
					tk, _ := genC11Token(t, 0)
					if op == "insert" {
						toks = append(toks[:i], append([]lexref.Tok{tk.Tok}, toks[i:]...)...)
					} else {
						toks[i] = tk.Tok
					}
					ops = append(ops, op)
				case "duplicate":
					toks = append(toks[:i], append([]lexref.Tok{toks[i]}, toks[i:]...)...)
					ops = append(ops, op)
				case "swap":
					j := gen.Uniform(0, len(toks)-1).Draw(t, "pos2")
					toks[i], toks[j] = toks[j], toks[i]
					ops = append(ops, op)
				case "truncate":
					toks = toks[:i]
					ops = append(ops, op)
				}
			}
			input = renderToks(toks)
			c.Note = "near-miss:" + strings.Join(ops, "+")
		default: // import graphs
			names := []string{"main.tsh", "a.tsh", "b.tsh", "sub/c.tsh"}
			nfiles := gen.Uniform(1, 4).Draw(t, "nfiles")
			c.Files = map[string]string{}
			for i := 0; i < nfiles; i++ {
				var sb strings.Builder
				nimp := gen.Uniform(0, 2).Draw(t, "nimports")
				if nimp > 0 {
					sb.WriteString("import (\n")
					for k := 0; k < nimp; k++ {
						// relative targets, and ABSOLUTE ones in clean and unclean spellings (a cycle is a cycle however the path is written)
						target := []string{"main.tsh", "a.tsh", "b.tsh", "sub/c.tsh", "missing.tsh", "sub", "strings", "../a.tsh", "c.tsh",
							"./a.tsh", "sub/../b.tsh", "{ROOT}/a.tsh", "{ROOT}/./b.tsh", "{ROOT}//main.tsh", "{ROOT}/sub/../a.tsh", "{ROOT}/sub/./c.tsh"}[gen.Uniform(0, 15).Draw(t, "target")]
						alias := []string{"x", "y", "z", ""}[gen.Uniform(0, 3).Draw(t, "alias")]
						if alias != "" {
							alias += fmt.Sprint(k) + " "
						}
						sb.WriteString("\t" + alias + "\"" + target + "\"\n")
					}
					sb.WriteString(")\n")
				}
				body := []string{"print(1)\n", "func F() int {\n\treturn 1\n}\n", "V := 2\n", "", "this is not valid\n", "func g() {\n\tprint(2)\n}\ng()\n"}[gen.Uniform(0, 5).Draw(t, "body")]
				sb.WriteString(body)
				c.Files[names[i]] = sb.String()
			}
			if gen.Uniform(0, 9).Draw(t, "main-kind") == 0 {
				c.Main = []string{"nonexistent.tsh", "sub"}[gen.Uniform(0, 1).Draw(t, "badmain")]
				c.Dirs = []string{"sub"}
			}
			c.Note = "import-graph"
			input = mainSource(c.Files, "main.tsh")
		}
		if c.Files == nil {
			c.FilesHex = map[string]string{"main.tsh": hexEnc(input)}
		}
		r.Eval()
		r.Class(strings.SplitN(c.Note, ":", 2)[0])
		lexOK := false
		if _, err := safeTokenize(input); err == nil {
			lexOK = true
		}
		kind, msg, stage := checkTotal(c)
		if kind == "harness" {
			r.HarnessError("%s", msg)
			t.Skip("harness")
		}
		if lexOK {
			r.Class("passes-lexer", "verdict:"+stage)
			r.NonTrivial(input, map[string]any{"input": input, "family": c.Note, "verdict": stage})
		} else {
			r.Class("rejected-by-lexer")
		}
		if kind != "" {
			sig := rep.Sig{"kind": kind, "family": strings.SplitN(c.Note, ":", 2)[0]}
			if kind == "panic" {
				sig["panic"] = errClass(msg)
			}
			r.FailCase(t, sig, c.Note+": "+msg+"\ninput: "+fmt.Sprintf("%q", input), c)
		}
	})
}

// ---- deep nesting: inputs whose nesting depth is huge (generated from shape and depth; up to 1 MB) run through the real
// tsh command, because the size of the stack is a property of the process: a host with a smaller limit (the workers of
// this harness) would die earlier than the command a user runs.

type deepCase struct {
	Kind     string `json:"kind"` // "deep-nesting"
	Property string `json:"property"`
	Shape    string `json:"shape"`
	Depth    int    `json:"depth"`
}

func deepSource(shape string, n int) string {
	switch shape {
	case "parens":
		return "x := " + strings.Repeat("(", n) + "1" + strings.Repeat(")", n) + "\nprint(x)\n"
	case "nots":
		return "x := " + strings.Repeat("!", n) + "true\nprint(x)\n"
	case "blocks":
		return strings.Repeat("if true {\n", n) + "print(1)\n" + strings.Repeat("}\n", n)
	case "loops":
		return strings.Repeat("for {\n", n) + "break\n" + strings.Repeat("}\n", n)
	case "index":
		return "s := []int{0}\nx := " + strings.Repeat("s[", n) + "0" + strings.Repeat("]", n) + "\nprint(x)\n"
	case "calls":
		return "func f(a int) int {\n\treturn a\n}\nx := " + strings.Repeat("f(", n) + "1" + strings.Repeat(")", n) + "\nprint(x)\n"
	case "unclosed-parens":
		return "x := " + strings.Repeat("(", n) + "\n"
	case "unclosed-blocks":
		return strings.Repeat("if true {\n", n)
	}
	return ""
}

// checkDeep runs tsh on the generated file for both targets. Returns "" if each run ends with a script or with an error message.
func checkDeep(c deepCase) (kind string, msg string) {
	tsh := os.Getenv("VERIF_TSH")
	if tsh == "" {
		return "harness", "VERIF_TSH is not set"
	}
	dir := run.Scratch("deep")
	defer os.RemoveAll(dir)
	in := filepath.Join(dir, "deep.tsh")
	os.WriteFile(in, []byte(deepSource(c.Shape, c.Depth)), 0o644)
	for _, tg := range []string{"bash", "batch"} {
		out := filepath.Join(dir, "out-"+tg)
		os.MkdirAll(out, 0o755)
		var stderr limitedTail
		var err error
		timedOut := false
		for attempt := 0; attempt < 2; attempt++ {
			// the large inputs take about 20 s on an idle machine; a run over the limit is repeated once, after the machine has
			// become responsive again, before it counts
			limit := 300 * time.Second
			if attempt == 1 {
				run.WaitResponsive()
				limit = 450 * time.Second
			}
			stderr = limitedTail{}
			ctx, cancel := context.WithTimeout(context.Background(), limit)
			cmd := exec.CommandContext(ctx, tsh, "-i", in, "-o", out, "-t", tg)
			cmd.Stderr = &stderr
			err = cmd.Run()
			timedOut = ctx.Err() == context.DeadlineExceeded
			cancel()
			if !timedOut {
				break
			}
		}
		text := stderr.String()
		switch {
		case timedOut:
			return "hang", fmt.Sprintf("%s target: tsh did not finish within 300 s and, repeated, within 450 s (%s, depth %d)", tg, c.Shape, c.Depth)
		case strings.Contains(text, "fatal error:") || strings.Contains(text, "goroutine stack exceeds") || strings.Contains(text, "signal:"):
			return "died", fmt.Sprintf("%s target: the process was killed by the runtime (%s, depth %d): %s", tg, c.Shape, c.Depth, firstLine(text))
		case strings.Contains(text, "panic: runtime error"):
			return "panic", fmt.Sprintf("%s target (%s, depth %d): %s", tg, c.Shape, c.Depth, firstLine(text))
		case err != nil && strings.TrimSpace(strings.TrimPrefix(firstLine(text), "panic:")) == "":
			return "empty-error", fmt.Sprintf("%s target: tsh failed without a message (%s, depth %d)", tg, c.Shape, c.Depth)
		}
		files, _ := os.ReadDir(out)
		if err == nil && len(files) == 0 {
			return "empty-script", fmt.Sprintf("%s target: exit 0 but no script (%s, depth %d)", tg, c.Shape, c.Depth)
		}
		if err != nil && len(files) > 0 {
			return "script-and-error", fmt.Sprintf("%s target: tsh failed but wrote a file (%s, depth %d)", tg, c.Shape, c.Depth)
		}
	}
	return "", ""
}

func firstLine(s string) string {
	for _, l := range strings.Split(s, "\n") {
		if strings.TrimSpace(l) != "" {
			if len(l) > 300 {
				l = l[:300]
			}
			return l
		}
	}
	return ""
}

// limitedTail keeps the first 64 KiB of what is written to it.
type limitedTail struct{ b []byte }

func (l *limitedTail) Write(p []byte) (int, error) {
	if len(l.b) < 64<<10 {
		l.b = append(l.b, p...)
	}
	return len(p), nil
}
func (l *limitedTail) String() string { return string(l.b) }

func init() {
	replayFuncs["deep-nesting"] = func(raw json.RawMessage) (bool, string) {
		var c deepCase
		json.Unmarshal(raw, &c)
		k, msg := checkDeep(c)
		return k == "", k + ": " + msg
	}
}

// c13DeepCases: shape x depth. The small depths only cost milliseconds; the large ones are the sizes at which an unbounded
// recursive descent runs out of the 1 GB stack of a Go process.
func c13DeepCases() []deepCase {
	out := []deepCase{}
	for _, shape := range []string{"parens", "nots", "blocks", "loops", "index", "calls", "unclosed-parens", "unclosed-blocks"} {
		for _, n := range []int{40, 3000, 12000} {
			out = append(out, deepCase{Kind: "deep-nesting", Property: "C13", Shape: shape, Depth: n})
		}
	}
	out = append(out, deepCase{Kind: "deep-nesting", Property: "C13", Shape: "parens", Depth: 500000},
		deepCase{Kind: "deep-nesting", Property: "C13", Shape: "nots", Depth: 1000000},
		deepCase{Kind: "deep-nesting", Property: "C13", Shape: "unclosed-parens", Depth: 600000})
	return out
}
