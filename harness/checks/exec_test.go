package checks

import (
	"encoding/json"
	"fmt"
	"hash/fnv"
	"regexp"
	"sort"
	"strings"
	"time"

	"verif/harness/rep"
	"verif/harness/run"
	"verif/harness/ts"
)

// execCase is the replayable form of "transpile to Bash, run, compare with stored expectations".
type execCase struct {
	Kind         string            `json:"kind"` // "bash-run"
	Property     string            `json:"property"`
	Files        map[string]string `json:"files"`
	Main         string            `json:"main"`
	Stdin        string            `json:"stdin,omitempty"`
	Pre          map[string]string `json:"pre_files,omitempty"`
	PreDirs      []string          `json:"pre_dirs,omitempty"`
	Exec         map[string]string `json:"exec_files,omitempty"`
	Env          []string          `json:"env,omitempty"`
	ExpectStdout string            `json:"expect_stdout"`
	ExpectStatus int               `json:"expect_status"`
	ExpectFS     map[string]string `json:"expect_fs,omitempty"` // nil: not compared
	CheckFS      bool              `json:"check_fs,omitempty"`
	Tags         []string          `json:"tags,omitempty"`
	Note         string            `json:"note,omitempty"`
	// IgnoreToken is removed from stdout and stderr before they are compared: the text of an input() prompt, which an
	// implementation may or may not show when standard input is not a terminal.
	IgnoreToken string `json:"ignore_token,omitempty"`
	// AfterOtherTarget: the Bash script comes from a transpiler object that has translated the program for Batch before
	// (tsh -t batch -t bash); the two targets never influence each other, so the script must be as good as a first one.
	AfterOtherTarget bool `json:"after_other_target,omitempty"`
}

type execOutcome struct {
	OK       bool
	Kind     string // rejected | panic | stdout | status | stderr | hang | fs
	Msg      string
	Script   string
	Res      run.ExecResult
	ErrClass string
}

var reNum = regexp.MustCompile(`[0-9]+`)
var rePath = regexp.MustCompile(`/[^\s:"]+`)

// errClass strips positions and paths from an error text so it can serve in signatures.
func errClass(s string) string {
	s = rePath.ReplaceAllString(s, "<path>")
	s = reNum.ReplaceAllString(s, "N")
	if len(s) > 80 {
		s = s[:80]
	}
	return s
}

// hangConfirmed: this process has confirmed a non-terminating script with the long limit once.
var hangConfirmed bool

func runExecCase(c execCase) execOutcome {
	tr := run.TranspileSrc(c.Files, c.Main, run.Bash)
	if c.AfterOtherTarget {
		tr = run.TranspileSecond(c.Files, c.Main, run.Bash)
	}
	if !tr.Accepted() {
		kind := "rejected"
		if tr.Panic != "" {
			kind = "panic"
		} else if tr.TimedOut {
			kind = "transpile-hang"
		}
		return execOutcome{Kind: kind, Msg: "well-typed program was not translated: " + tr.ErrText(), ErrClass: errClass(tr.ErrText())}
	}
	o := run.ExecOpts{Stdin: c.Stdin, Pre: c.Pre, PreDirs: c.PreDirs, Exec: c.Exec, Env: c.Env, KeepFS: c.CheckFS, Timeout: 6 * time.Second}
	res := run.RunBash(tr.Script, o)
	if res.TimedOut {
		// confirm in isolation with a longer limit before calling it a hang
		o.Timeout = 20 * time.Second
		res = run.RunBash(tr.Script, o)
		if res.TimedOut && !hangConfirmed {
			// twice over the limit: either the script does not terminate or the machine is stalled (seen once on the unchanged tree:
			// a script of 0.3 s exceeded 6 s and 20 s while another job saturated the machine). Wait until a trivial script runs
			// promptly again, then decide with a limit 200 times the normal run time.
			run.WaitResponsive()
			o.Timeout = 60 * time.Second
			res = run.RunBash(tr.Script, o)
		}
		if res.TimedOut {
			hangConfirmed = true // later time-outs of this shard are decided by the 20 s re-run (a violation is established anyway)
			return execOutcome{Kind: "hang", Msg: "script did not terminate within 20 s (reference run is finite)", Script: tr.Script, Res: res}
		}
	}
	if c.IgnoreToken != "" {
		res.Stdout = strings.ReplaceAll(res.Stdout, c.IgnoreToken, "")
		res.Stderr = strings.ReplaceAll(res.Stderr, c.IgnoreToken, "")
	}
	out := execOutcome{OK: true, Script: tr.Script, Res: res}
	fail := func(kind, msg string) execOutcome {
		out.OK = false
		out.Kind = kind
		out.Msg = msg
		return out
	}
	if res.Stdout != c.ExpectStdout {
		return fail("stdout", fmt.Sprintf("stdout differs\n--- expected\n%s--- got\n%s--- stderr\n%s", c.ExpectStdout, res.Stdout, res.Stderr))
	}
	if res.Status != c.ExpectStatus {
		return fail("status", fmt.Sprintf("exit status %d, expected %d (stderr: %s)", res.Status, c.ExpectStatus, res.Stderr))
	}
	if res.Stderr != "" {
		return fail("stderr", "script wrote to stderr: "+res.Stderr)
	}
	if c.CheckFS {
		exp := map[string]string{}
		for k, v := range c.Pre {
			exp[k] = v
		}
		for k, v := range c.ExpectFS {
			exp[k] = v
		}
		keys := map[string]bool{}
		for k := range exp {
			keys[k] = true
		}
		for k := range res.Files {
			keys[k] = true
		}
		ks := []string{}
		for k := range keys {
			ks = append(ks, k)
		}
		sort.Strings(ks)
		for _, k := range ks {
			e, eok := exp[k]
			g, gok := res.Files[k]
			switch {
			case eok && !gok:
				return fail("fs", fmt.Sprintf("file %q missing after the run (expected %q)", k, e))
			case !eok && gok:
				return fail("fs", fmt.Sprintf("unexpected file %q with content %q", k, g))
			case e != g:
				return fail("fs", fmt.Sprintf("file %q holds %q, expected %q", k, g, e))
			}
		}
	}
	return out
}

func init() {
	replayFuncs["bash-run"] = func(raw json.RawMessage) (bool, string) {
		var c execCase
		json.Unmarshal(raw, &c)
		o := runExecCase(c)
		return o.OK, o.Kind + ": " + o.Msg
	}
}

// refRun evaluates the program with the reference interpreter.
func refRun(p *ts.Program, maxSteps int, stdin []string, fs map[string]string) (ts.Result, error) {
	in := ts.NewInterp(p)
	in.MaxSteps = maxSteps
	in.Stdin = stdin
	for k, v := range fs {
		in.FS[k] = v
	}
	return in.Run()
}

func sortedTags(tags map[string]int) []string {
	out := []string{}
	for k := range tags {
		out = append(out, k)
	}
	sort.Strings(out)
	return out
}

func mainSource(files map[string]string, main string) string {
	if len(files) == 1 {
		return files[main]
	}
	ks := run.SortedKeys(files)
	var sb strings.Builder
	for _, k := range ks {
		sb.WriteString("// ---- " + k + "\n" + files[k])
	}
	return sb.String()
}

// diffProgram is the shared body of the differential properties C01–C04: interpret, transpile, run, compare.
// Returns false if the case was discarded.
type diffOpts struct {
	Property string
	MaxSteps int
	Tags     map[string]int
	// NonTrivial decides from static tags and dynamic events
	NonTrivial func(tags map[string]int, ev map[string]int) bool
	SigExtra   func(o execOutcome, tags map[string]int) rep.Sig
	Enumerated bool // deterministic enumeration: record the violation and go on (no rapid involved)
}

func diffProgram(t rep.Skipper, r *rep.R, p *ts.Program, o diffOpts) {
	ref, err := refRun(p, o.MaxSteps, nil, nil)
	if err != nil {
		reason := "invalid"
		if iv, ok := err.(ts.Invalid); ok {
			reason = iv.Reason
		}
		r.Discard(reason)
		t.Skip(reason)
		return
	}
	files := ts.Sources(p)
	src := mainSource(files, p.Main)
	r.Eval()
	for k := range o.Tags {
		r.Class(k)
	}
	for k := range ref.Events {
		r.Class("dyn:" + k)
	}
	if ref.Status == 1 {
		r.Class("dyn:status=1")
	}
	if o.NonTrivial == nil || o.NonTrivial(o.Tags, ref.Events) {
		r.NonTrivial(src, map[string]any{"source": src, "expect_stdout": ref.Stdout, "expect_status": ref.Status})
	}
	c := execCase{Kind: "bash-run", Property: o.Property, Files: files, Main: p.Main, ExpectStdout: ref.Stdout, ExpectStatus: ref.Status, Tags: sortedTags(o.Tags)}
	out := runExecCase(c)
	asImport := false
	if out.OK {
		// a third of the single-file programs (chosen by a hash of the text) also run as the text of an IMPORTED file:
		// top-level code of an imported file runs when it is imported, its names live under a prefix, its meaning is the same
		h := fnv.New32a()
		h.Write([]byte(src))
		if len(files) != 1 || h.Sum32()%3 != 0 {
			return
		}
		c.Files = map[string]string{"main.tsh": "import lb \"lb.tsh\"\n", "lb.tsh": files[p.Main]}
		c.Main = "main.tsh"
		c.Note = "the program text as an imported file"
		r.Class("as-imported-file")
		out = runExecCase(c)
		if out.OK {
			return
		}
		asImport = true
	}
	sig := rep.Sig{"kind": out.Kind}
	if asImport {
		sig["as-import"] = "yes"
	}
	if out.ErrClass != "" {
		sig["error"] = out.ErrClass
	}
	if o.SigExtra != nil {
		for k, v := range o.SigExtra(out, o.Tags) {
			sig[k] = v
		}
	}
	if o.Enumerated {
		r.Violate(sig, out.Msg+"\n--- source\n"+src+"--- script\n"+out.Script, c)
		return
	}
	r.FailCase(t, sig, out.Msg+"\n--- source\n"+src+"--- script\n"+out.Script, c)
}
