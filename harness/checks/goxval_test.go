package checks

import (
	"fmt"
	"os"
	"os/exec"
	"path/filepath"
	"strings"

	"pgregory.net/rapid"
	"verif/harness/gen"
	"verif/harness/rep"
	"verif/harness/run"
	"verif/harness/ts"
)

// Cross-validation of the reference interpreter against the Go toolchain ("the oracle's oracle").
// On the fragment where TypeShell text IS Go text with the same meaning (scalars, all operators, every
// loop/if/switch form, functions, multi-returns, swaps; no calls under && / || / else-if / case, because
// Go short-circuits; no slices growth, no string indexing) generated programs are rendered as one Go
// file, compiled with the local toolchain, and the interpreter's stdout/status must equal the real
// program's. A disagreement is a harness defect (exit 2), never a VIOLATION.

const goPrelude = `package main

import (
	"fmt"
	"os"
	"strconv"
	"strings"
)

type tsExit struct{}

func c(v int) int { return v }
func cs(v string) string { return v }
func cb(v bool) bool { return v }

func tsprint(args ...any) {
	parts := []string{}
	for _, a := range args {
		switch x := a.(type) {
		case bool:
			if x {
				parts = append(parts, "1")
			} else {
				parts = append(parts, "0")
			}
		default:
			parts = append(parts, fmt.Sprint(a))
		}
	}
	fmt.Println(strings.Join(parts, " "))
}

func itoa(v int) string { return strconv.Itoa(v) }

func tspanic(s string) {
	fmt.Println("panic: " + s)
	panic(tsExit{})
}

func runProg(name string, f func()) {
	fmt.Println("### begin " + name)
	status := 0
	func() {
		defer func() {
			if r := recover(); r != nil {
				if _, ok := r.(tsExit); ok {
					status = 1
					return
				}
				panic(r)
			}
		}()
		f()
	}()
	fmt.Println("### end " + name + " " + strconv.Itoa(status))
}

var _ = os.Exit
`

// goRender turns the statements of one program into Go declarations + a function body.
func goRender(prefix string, stmts []ts.Stmt) (decls string, body string) {
	// 1. names get a per-program prefix; int literals become c(N) (no constant folding / overflow errors)
	rw := &ts.Rewriter{Name: func(n, role string) string { return prefix + n }}
	stmts = rw.Stmts(stmts)
	var lit func(e ts.Expr) ts.Expr
	litRw := &ts.Rewriter{}
	litRw.Site = func(e ts.Expr, kind string) (ts.Expr, bool) {
		if il, ok := e.(ts.IntLit); ok {
			return ts.Call{Name: "c", Args: []ts.Expr{il}, Rets: []ts.Type{ts.TInt}}, true
		}
		return nil, false
	}
	_ = lit
	stmts = litRw.Stmts(stmts)
	var dsb, bsb strings.Builder
	goType := func(t ts.Type) string { return t.String() }
	var conv func(ss []ts.Stmt, top bool) []ts.Stmt
	conv = func(ss []ts.Stmt, top bool) []ts.Stmt {
		out := []ts.Stmt{}
		for _, s := range ss {
			switch x := s.(type) {
			case ts.FuncDef:
				x.NoParens = false
				x.Body = conv(x.Body, false)
				dsb.WriteString(ts.StmtsString([]ts.Stmt{x}))
			case ts.VarDecl:
				if top {
					for i, n := range x.Names {
						t := x.Ty
						if len(x.Tys) > i {
							t = x.Tys[i]
						}
						if i < len(x.Reuse) && x.Reuse[i] {
							continue // a name re-used by ":=": declared by its first definition
						}
						dsb.WriteString("var " + n + " " + goType(t) + "\n")
					}
					if len(x.Vals) > 0 {
						out = append(out, ts.Assign{Names: x.Names, Vals: x.Vals})
					} else {
						for i, n := range x.Names {
							t := x.Ty
							if len(x.Tys) > i {
								t = x.Tys[i]
							}
							zero := map[ts.Type]ts.Expr{ts.TInt: ts.Call{Name: "c", Args: []ts.Expr{ts.IntLit{V: 0}}, Rets: []ts.Type{ts.TInt}}, ts.TBool: ts.BoolLit{}, ts.TString: ts.StrLit{}}[t]
							out = append(out, ts.Assign{Names: []string{n}, Vals: []ts.Expr{zero}})
						}
					}
				} else {
					out = append(out, x)
					for _, n := range x.Names {
						out = append(out, ts.Raw{Text: "_ = " + n})
					}
				}
			case ts.If:
				x.Then = conv(x.Then, false)
				for i := range x.Elifs {
					x.Elifs[i].Body = conv(x.Elifs[i].Body, false)
				}
				x.Else = conv(x.Else, false)
				if x.HasElse && len(x.Else) == 0 {
					x.HasElse = false
				}
				out = append(out, x)
			case ts.Switch:
				cases := make([]ts.Case, len(x.Cases))
				copy(cases, x.Cases)
				for i := range cases {
					cases[i].Body = conv(cases[i].Body, false)
					// Go rejects duplicate CONSTANT cases (case "": ... case "":) - the language under test does not:
					// string and bool cases go through an identity function
					if !cases[i].Default && cases[i].E != nil {
						switch cases[i].E.T() {
						case ts.TString:
							cases[i].E = ts.Call{Name: "cs", Args: []ts.Expr{cases[i].E}, Rets: []ts.Type{ts.TString}}
						case ts.TBool:
							cases[i].E = ts.Call{Name: "cb", Args: []ts.Expr{cases[i].E}, Rets: []ts.Type{ts.TBool}}
						}
					}
				}
				x.Cases = cases
				out = append(out, x)
			case ts.For:
				x.Body = conv(x.Body, false)
				out = append(out, x)
			case ts.Panic:
				out = append(out, ts.ExprStmt{E: ts.Call{Name: "tspanic", Args: []ts.Expr{x.E}}})
			case ts.Print:
				out = append(out, ts.ExprStmt{E: ts.Call{Name: "tsprint", Args: x.Args}})
			default:
				out = append(out, s)
			}
		}
		return out
	}
	main := conv(stmts, true)
	bsb.WriteString("func " + prefix + "main() {\n")
	for _, l := range strings.Split(strings.TrimSuffix(ts.StmtsString(main), "\n"), "\n") {
		bsb.WriteString("\t" + l + "\n")
	}
	bsb.WriteString("}\n")
	return dsb.String(), bsb.String()
}

// runGoCrossValidation generates n programs, runs them through the interpreter and the Go toolchain.
func runGoCrossValidation(r *rep.R, e rep.Env, n int) {
	cfg := gen.Cfg{MaxStmts: 22, MaxDepth: 4, ExprDepth: 4, Funcs: true, MaxFuncs: 4, Panics: true, Wide: true, LoopBudget: 24, PureConds: true, DumpGlobal: true}
	type item struct {
		name   string
		stdout string
		status int
		src    string
	}
	items := []item{}
	var file strings.Builder
	file.WriteString(goPrelude)
	var mains []string
	for i := 0; len(items) < n && i < 6*n; i++ {
		seed := int(e.Seed%100000)*100000 + e.Shard*1000 + i
		stmts := rapid.Custom(func(t *rapid.T) []ts.Stmt {
			s, _ := gen.Stmts(t, cfg)
			return s
		}).Example(seed)
		ref, err := refRun(ts.Single(stmts), 4000, nil, nil)
		if err != nil {
			continue
		}
		name := fmt.Sprintf("p%d_", len(items))
		decls, body := goRender(name, stmts)
		file.WriteString(decls + body)
		mains = append(mains, name)
		items = append(items, item{name: name, stdout: ref.Stdout, status: ref.Status, src: ts.StmtsString(stmts)})
	}
	file.WriteString("func main() {\n")
	for _, m := range mains {
		file.WriteString("\trunProg(\"" + m + "\", " + m + "main)\n")
	}
	file.WriteString("}\n")
	dir := run.Scratch("goxval")
	defer os.RemoveAll(dir)
	os.WriteFile(filepath.Join(dir, "main.go"), []byte(file.String()), 0o644)
	os.WriteFile(filepath.Join(dir, "go.mod"), []byte("module xval\n\ngo 1.22\n"), 0o644)
	cmd := exec.Command("go", "run", ".")
	cmd.Dir = dir
	cmd.Env = append(os.Environ(), "GOFLAGS=-mod=mod", "GOPROXY=off", "GOTOOLCHAIN=local", "GOCACHE="+filepath.Join(dir, ".cache"))
	if gc := os.Getenv("GOCACHE"); gc != "" {
		cmd.Env = append(cmd.Env, "GOCACHE="+gc)
	} else if home, err := os.UserCacheDir(); err == nil {
		cmd.Env = append(cmd.Env, "GOCACHE="+filepath.Join(home, "go-build"))
	}
	out, err := cmd.CombinedOutput()
	if err != nil && !strings.Contains(string(out), "### begin") {
		keep := filepath.Join(os.TempDir(), "goxval-failed.go")
		os.WriteFile(keep, []byte(file.String()), 0o644)
		r.HarnessError("Go cross-validation: the rendered programs do not compile/run (%v): %s (source kept at %s)", err, clip(string(out)), keep)
		return
	}
	// split the output per program
	got := map[string]item{}
	cur := ""
	var sb strings.Builder
	for _, l := range strings.SplitAfter(string(out), "\n") {
		switch {
		case strings.HasPrefix(l, "### begin "):
			cur = strings.TrimSpace(strings.TrimPrefix(l, "### begin "))
			sb.Reset()
		case strings.HasPrefix(l, "### end "):
			f := strings.Fields(strings.TrimPrefix(l, "### end "))
			st := 0
			if len(f) == 2 && f[1] == "1" {
				st = 1
			}
			got[cur] = item{stdout: sb.String(), status: st}
			cur = ""
		default:
			if cur != "" {
				sb.WriteString(l)
			}
		}
	}
	agree := 0
	for _, it := range items {
		g, ok := got[it.name]
		if !ok {
			r.HarnessError("Go cross-validation: program %s produced no output block:\n%s", it.name, it.src)
			return
		}
		if g.stdout != it.stdout || g.status != it.status {
			r.HarnessError("the reference interpreter disagrees with the Go toolchain on a Go-compatible program (harness defect):\n--- source\n%s--- interpreter (status %d)\n%s--- go run (status %d)\n%s", it.src, it.status, it.stdout, g.status, g.stdout)
			return
		}
		agree++
	}
	r.AddExtra("n_refsem_vs_go_programs_agree", agree)
}
