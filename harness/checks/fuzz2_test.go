package checks

import (
	"fmt"
	"os"
	"regexp"
	"strconv"
	"strings"
	"testing"
	"unicode/utf8"

	"github.com/monstermichl/typeshell/lexer"
	"pgregory.net/rapid"

	"verif/harness/lexref"
)

// Native (coverage-guided) fuzz targets of the thorough tier of C12, C14 and C16. The rapid searches of these
// properties draw their base programs from my own grammar; here the base program is whatever byte string the
// coverage-guided engine derives from the suite's, the examples' and std's sources, so token sequences nobody wrote a
// production for reach the parser, the transpiler and both converters. The oracle of the property sits inside the
// target; a failure writes an ordinary replay file and is confirmed through the replay path by bin/check.

// fuzzLexable returns the reference token list of src if src lies in the domain the layout/well-formedness oracles can
// judge: valid UTF-8, unambiguous for the reference grammar, and tokenised by the real lexer exactly as the reference
// grammar says (a disagreement there is C11's business, not that of the property fuzzed here).
func fuzzLexable(src string) ([]lexref.Tok, bool) {
	if len(src) == 0 || len(src) > 2048 || !utf8.ValidString(src) || reFloatish.MatchString(src) || strings.Contains(src, "\r") {
		return nil, false
	}
	toks, amb, err := lexref.Lex(src)
	if err != nil || amb || len(toks) == 0 {
		return nil, false
	}
	got, gerr := safeTokenize(src)
	if msg, _ := c11Compare(src, toks, got, gerr); msg != "" {
		return nil, false
	}
	return toks, true
}

func fuzzName(prefix string, n int) string {
	return prefix + "-" + fmt.Sprintf("%x", n) + "-" + strconv.Itoa(os.Getpid())
}

// FuzzC12 — layout independence on arbitrary lexable programs: data is the program, layout the stream of layout
// choices (consumed by the same relayout() the rapid search uses, through rapid.MakeFuzz).
func FuzzC12(f *testing.F) {
	repo := os.Getenv("VERIF_REPO")
	if repo == "" {
		repo = "/repo"
	}
	c13CorpusOnce.Do(loadC13Corpus)
	layouts := [][]byte{{}, {0xff, 0xff, 0xff, 0xff, 0xff, 0xff, 0xff, 0xff, 0x55, 0x55, 0x55, 0x55, 0xaa, 0xaa, 0xaa, 0xaa}, []byte("layoutlayoutlayoutlayoutlayoutlayoutlayoutlayoutlayoutlayoutlayout")}
	for i, src := range c13CorpusSrc {
		if i%2 == 0 {
			f.Add([]byte(src), layouts[i%len(layouts)])
		}
	}
	for _, s := range []string{"a := 5\nb := a - 1\nprint(b)\n", "x := -1\nprint(x - -1)\n", "s := []int{1, 2}\nprint(s[len(s) - 1])\n", "switch 1 {\n\ncase 1:\n\tprint(1)\n}\n", "var a, b int = 1, 2\na, b = b, a\n"} {
		f.Add([]byte(s), layouts[1])
	}
	// files ending in every kind of token (the last token meets the end of the file when the final line break is dropped)
	for _, s := range []string{"x := 1\nx++\n", "x := 1\nx--\n", "x := 1\nx += 2\n", "x := 1\nx = x\n", "x := true\n", "x := \"s\"\n", "x := `r`\n", "x := []int{1}\n", "s := []int{1}\nx := s[0]\n",
		"print(1)\n", "if true {\n}\n", "import \"strings\"\n", "x := 1 // c\n", "x := 1 /* c */\n", "func f() {\n}\nf()\n", "x := 5\ny := x - 1\n", "x := -1\n", "for {\n\tbreak\n}\n", "x := nil\n"} {
		f.Add([]byte(s), layouts[0])
	}
	f.Fuzz(func(t *testing.T, data []byte, layout []byte) {
		src := string(data)
		toks, ok := fuzzLexable(src)
		if !ok {
			t.Skip()
		}
		fail := func(c layoutCase, kind, msg string) {
			p := writeFuzzReplay(fuzzName("fuzz12", len(c.Relaid)), c)
			t.Fatalf("FUZZ-VIOLATION replay=%s %s: %s\n--- original\n%s--- relaid\n%s", p, kind, msg, c.Original, c.Relaid)
		}
		// the whole file saved with CRLF line ends
		cc := layoutCase{Kind: "layout-pair", Property: "C12", Original: src, Relaid: strings.ReplaceAll(src, "\n", "\r\n"), Edits: []string{"whole-file-crlf"}}
		if kind, msg := checkLayoutPair(cc); kind != "" {
			fail(cc, kind, msg)
		}
		// presence or absence of the final line break
		if trimmed := strings.TrimRight(src, "\n"); trimmed != src && trimmed != "" {
			fc := layoutCase{Kind: "layout-pair", Property: "C12", Original: src, Relaid: trimmed, Edits: []string{"final-newline-dropped"}}
			if kind, msg := checkLayoutPair(fc); kind != "" {
				fail(fc, kind, msg)
			}
		} else if trimmed == src {
			fc := layoutCase{Kind: "layout-pair", Property: "C12", Original: src, Relaid: src + "\n", Edits: []string{"final-newline-added"}}
			if kind, msg := checkLayoutPair(fc); kind != "" {
				fail(fc, kind, msg)
			}
		}
		if len(layout) == 0 {
			return
		}
		rapid.MakeFuzz(func(rt *rapid.T) {
			relaid, kinds := relayout(rt, toks)
			rtoks, _, rerr := lexref.Lex(relaid)
			if rerr != nil || c12Stream(rtoks) != c12Stream(toks) {
				rt.Skip("the re-layout did not preserve the token stream")
			}
			c := layoutCase{Kind: "layout-pair", Property: "C12", Original: src, Relaid: relaid, Edits: kinds}
			if kind, msg := checkLayoutPair(c); kind != "" {
				fail(c, kind, msg)
			}
		})(t, layout)
	})
}

// c12Stream is the token stream of a text up to layout: runs of line breaks count once, trailing ones not at all.
func c12Stream(ts []lexref.Tok) string {
	out := []string{}
	lastNL := true
	for _, k := range ts {
		if k.Type == lexer.NEWLINE {
			if !lastNL {
				out = append(out, "\n")
			}
			lastNL = true
			continue
		}
		lastNL = false
		out = append(out, fmt.Sprint(k.Type)+":"+k.Text)
	}
	for len(out) > 0 && out[len(out)-1] == "\n" {
		out = out[:len(out)-1]
	}
	return strings.Join(out, " ")
}

// FuzzC14 — repeatability on arbitrary programs: the fuzzed program is transpiled for both targets several times on one
// transpiler object, interleaved with a rejected program and a helper-heavy one, and once more on a fresh object.
func FuzzC14(f *testing.F) {
	fuzzSeeds(f)
	other := c14Prog{Files: map[string]string{"main.tsh": "s := []int{1, 2}\nvar d []int\nprint(copy(d, s), len(s))\nfor i, v := range s {\n\tprint(i, v)\n}\na, b := 1, 2\na, b = b, a\nwrite(\"f.txt\", itoa(a))\nprint(read(\"f.txt\"), exists(\"f.txt\"))\n"}, Main: "main.tsh", Kind: "helper-heavy"}
	bad := c14Prog{Files: map[string]string{"main.tsh": "a, b := 1, 2\na, b = b, a\nfunc f() int {\n\treturn 1\n}\nx := f() + \"s\"\n"}, Main: "main.tsh", Kind: "rejected-late"}
	f.Fuzz(func(t *testing.T, data []byte) {
		if len(data) == 0 || len(data) > 4096 {
			t.Skip()
		}
		c := purityCase{Kind: "purity", Property: "C14", Progs: []c14Prog{{Files: map[string]string{"main.tsh": string(data)}, Main: "main.tsh", Kind: "fuzzed"}, other, bad},
			Steps: []c14Step{{0, "bash", 0}, {0, "batch", 0}, {2, "bash", 0}, {0, "bash", 0}, {1, "batch", 0}, {0, "batch", 0}, {2, "batch", 0}, {1, "bash", 0}, {0, "batch", 0}, {0, "bash", 0}}}
		if kind, msg := checkPurity(c); kind != "" && kind != "harness" {
			p := writeFuzzReplay(fuzzName("fuzz14", len(data)), c)
			t.Fatalf("FUZZ-VIOLATION replay=%s %s: %s", p, kind, msg)
		}
	})
}

var reNeutralString = regexp.MustCompile(`^[A-Za-z0-9_.,:/=+@#]*( [A-Za-z0-9_.,:/=+@#]+)*$`)

// FuzzC16 — well-formedness of the scripts of arbitrary ACCEPTED programs (string literals within the neutral
// alphabet, the stated assumption of C16): bash -n and the structural reader of the Batch text.
func FuzzC16(f *testing.F) {
	fuzzSeeds(f)
	f.Fuzz(func(t *testing.T, data []byte) {
		src := string(data)
		toks, ok := fuzzLexable(src)
		if !ok {
			t.Skip()
		}
		for _, k := range toks {
			if k.Type == lexer.STRING_LITERAL && !reNeutralString.MatchString(k.Value) {
				t.Skip()
			}
		}
		c := formCase{Kind: "wellformed", Property: "C16", Files: map[string]string{"main.tsh": src}, Main: "main.tsh"}
		be, rule, msg := checkWellFormed(c)
		if be == "" || rule == "rejected" {
			// a program that is not translated is outside the property (the same verdict for both targets is C06's clause)
			return
		}
		p := writeFuzzReplay(fuzzName("fuzz16", len(src)), c)
		t.Fatalf("FUZZ-VIOLATION replay=%s %s/%s: %s\n%s", p, be, rule, msg, src)
	})
}
