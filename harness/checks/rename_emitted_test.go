package checks

import (
	"sort"
	"strings"

	"pgregory.net/rapid"
	"verif/harness/gen"
	"verif/harness/lexref"
	"verif/harness/run"
	"verif/harness/ts"
)

// renameLikeEmitted gives a generated single-file program identifier spellings that stress the name mangling of the Batch
// back-end, without assuming anything about the scheme: (1) one identifier gets an upper-case letter (cmd.exe folds case, so the
// emitter has to tell Calc and calc apart somehow); (2) the Batch script of that program is read, and another identifier of
// the same kind takes the exact spelling (or a case variant of it) under which some identifier lives in that script. The
// meaning of the program does not change (C10), so C05 can run it against the reference and C16 can lint its script.
// Returns the renamed statements and a description of the renaming ("" = nothing renamed).
func renameLikeEmitted(t *rapid.T, stmts []ts.Stmt) ([]ts.Stmt, string) {
	type ident struct{ n, role string }
	seen := map[string]bool{}
	ids := []ident{}
	(&ts.Rewriter{Name: func(n, role string) string {
		if role == "alias" {
			return n
		}
		k := "variable"
		if role == "func" {
			k = "function"
		}
		if !seen[n+"/"+k] {
			seen[n+"/"+k] = true
			ids = append(ids, ident{n, k})
		}
		return n
	}}).Stmts(stmts)
	sort.Slice(ids, func(i, j int) bool { return ids[i].n+ids[i].role < ids[j].n+ids[j].role })
	if len(ids) < 2 {
		return stmts, ""
	}
	used := map[string]bool{}
	for _, id := range ids {
		used[id.n] = true
	}
	apply := func(m map[string]string) []ts.Stmt {
		return (&ts.Rewriter{Name: func(n, role string) string {
			k := n + "/variable"
			if role == "func" {
				k = n + "/function"
			}
			if v, ok := m[k]; ok {
				return v
			}
			return n
		}}).Stmts(stmts)
	}
	// step 1: an upper-case letter somewhere in one identifier
	first := ids[gen.Uniform(0, len(ids)-1).Draw(t, "case-ident")]
	letters := []int{}
	for i, ch := range first.n {
		if ch >= 'a' && ch <= 'z' {
			letters = append(letters, i)
		}
	}
	mapping := map[string]string{}
	desc := ""
	if len(letters) > 0 {
		i := letters[gen.Uniform(0, len(letters)-1).Draw(t, "case-pos")]
		nn := first.n[:i] + strings.ToUpper(first.n[i:i+1]) + first.n[i+1:]
		if _, kw := lexref.Keywords[nn]; !kw && !used[nn] {
			mapping[first.n+"/"+first.role] = nn
			used[nn] = true
			desc = first.n + "->" + nn
		}
	}
	step1 := apply(mapping)
	tr := run.TranspileOne(ts.StmtsString(step1), run.Batch)
	if !tr.Accepted() {
		return stmts, ""
	}
	// step 2: another identifier takes a spelling read off the script
	pool := []string{}
	for _, sp := range mangledSpellings(tr.Script, true, used) {
		for _, v := range []string{sp, strings.ToLower(sp), strings.ToUpper(sp)} {
			if _, kw := lexref.Keywords[v]; !kw && !used[v] && lexrefIdent(v) {
				pool = append(pool, v)
				used[v] = true
			}
		}
	}
	if len(pool) == 0 {
		return step1, desc
	}
	// spellings that belong to the identifier renamed in step 1 are preferred
	if nn, ok := mapping[first.n+"/"+first.role]; ok {
		pref := []string{}
		for _, sp := range pool {
			if strings.HasPrefix(strings.ToLower(sp), strings.ToLower(nn)) {
				pref = append(pref, sp)
			}
		}
		if len(pref) > 0 && gen.Uniform(0, 3).Draw(t, "emitted-preferred") != 0 {
			pool = pref
		}
	}
	others := []ident{}
	for _, id := range ids {
		if id != first && id.role == first.role {
			others = append(others, id)
		}
	}
	if len(others) == 0 {
		for _, id := range ids {
			if id != first {
				others = append(others, id)
			}
		}
	}
	second := others[gen.Uniform(0, len(others)-1).Draw(t, "emitted-ident")]
	nn := pool[gen.Uniform(0, len(pool)-1).Draw(t, "emitted-name")]
	mapping[second.n+"/"+second.role] = nn
	if desc != "" {
		desc += ", "
	}
	desc += second.n + "->" + nn
	return apply(mapping), desc
}
