package checks

import (
	"testing"

	"pgregory.net/rapid"
	"verif/harness/gen"
)

// C02 — Bash target preserves function-call semantics and variable isolation.
func c02Cfg(thorough bool) gen.Cfg {
	c := gen.Cfg{MaxStmts: 24, MaxDepth: 3, ExprDepth: 3, Funcs: true, MaxFuncs: 4, Slices: true, LoopBudget: 12, DumpGlobal: true, Wide: true, ErrSpell: true, BareExpr: true, Panics: true}
	if thorough {
		c.MaxStmts, c.MaxDepth, c.MaxFuncs, c.LoopBudget = 50, 5, 6, 30
	}
	return c
}

func c02NonTrivial(tags map[string]int, ev map[string]int) bool {
	return tags["func"] > 0 && tags["call"] > 0 && (tags["global-write-in-func"] > 0 || tags["multi-return-func"] > 0 || tags["swap"] > 0 || tags["call"] >= 2)
}

func TestC02(t *testing.T) {
	r, e := start(t, "C02",
		"programs with 1-6 functions (0-4 scalar or slice parameters, 0-3 results, with/without parentheses), identifiers drawn from a small pool so parameters, locals and later-defined globals share spellings across frames; globals written inside functions by =, op=, ++/--, multi-assignment and multi-value call assignment; calls as statements, operands, arguments, in multi-value definitions/assignments; swaps and 3-cycles; every global is printed at the end. Oracle: reference interpreter (real frames, slices by reference). Non-trivial = a called function plus a global write inside a function, a multi-value flow, a swap, or >= 2 calls; distinct by source text. A third of the programs (by a hash of the text) additionally run as the text of an imported file (same output expected).",
		[]string{"recursion is not generated (the language forbids it)", "return f() for multi-valued f and f(g()) with multi-valued g are not generated (never claimed by TypeShell)"})
	defer r.Flush()
	cfg := c02Cfg(e.Thorough())
	maxSteps := e.Pick(2000, 8000)
	checkRapid(t, r, func(t *rapid.T) {
		p, tags := gen.Program(t, cfg)
		diffProgram(t, r, p, diffOpts{Property: "C02", MaxSteps: maxSteps, Tags: tags, NonTrivial: c02NonTrivial})
	})
}
