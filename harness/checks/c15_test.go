package checks

import (
	"encoding/json"
	"fmt"
	"regexp"
	"strconv"
	"strings"
	"testing"

	"pgregory.net/rapid"
	"verif/harness/gen"
	"verif/harness/rep"
	"verif/harness/run"
)

// C15 — std/strings agrees with Go's strings package.

type sCall struct {
	Fn   string   `json:"fn"`
	S    []string `json:"s,omitempty"` // string arguments in order
	N    int      `json:"n,omitempty"` // count argument (Repeat, Replace)
	List []string `json:"list,omitempty"`
}

func boolStr(b bool) string {
	if b {
		return "1"
	}
	return "0"
}

func q(s string) string { return strconv.Quote(s) }

// results returns the values Go's strings package gives, already formatted as the program prints them.
func (c sCall) results() []string {
	s := c.S
	switch c.Fn {
	case "Index":
		return []string{strconv.Itoa(strings.Index(s[0], s[1]))}
	case "Contains":
		return []string{boolStr(strings.Contains(s[0], s[1]))}
	case "Join":
		return []string{strings.Join(c.List, s[0])}
	case "HasPrefix":
		return []string{boolStr(strings.HasPrefix(s[0], s[1]))}
	case "HasSuffix":
		return []string{boolStr(strings.HasSuffix(s[0], s[1]))}
	case "Count":
		return []string{strconv.Itoa(strings.Count(s[0], s[1]))}
	case "Split":
		parts := strings.Split(s[0], s[1])
		out := []string{strconv.Itoa(len(parts))}
		return append(out, parts...)
	case "Repeat":
		return []string{strings.Repeat(s[0], c.N)}
	case "Replace":
		return []string{strings.Replace(s[0], s[1], s[2], c.N)}
	case "ReplaceAll":
		return []string{strings.ReplaceAll(s[0], s[1], s[2])}
	case "Cut":
		a, b, f := strings.Cut(s[0], s[1])
		return []string{a, b, boolStr(f)}
	case "CutPrefix":
		a, f := strings.CutPrefix(s[0], s[1])
		return []string{a, boolStr(f)}
	case "CutSuffix":
		a, f := strings.CutSuffix(s[0], s[1])
		return []string{a, boolStr(f)}
	case "TrimPrefix":
		return []string{strings.TrimPrefix(s[0], s[1])}
	case "TrimSuffix":
		return []string{strings.TrimSuffix(s[0], s[1])}
	case "TrimLeft":
		return []string{strings.TrimLeft(s[0], s[1])}
	case "TrimRight":
		return []string{strings.TrimRight(s[0], s[1])}
	case "Trim":
		return []string{strings.Trim(s[0], s[1])}
	case "TrimSpace":
		return []string{strings.TrimSpace(s[0])}
	}
	panic("unknown function " + c.Fn)
}

// program returns the TypeShell lines that call the function and print every result between markers.
func (c sCall) program(k int) []string {
	id := strconv.Itoa(k)
	mark := func(sub string, val string) string {
		return fmt.Sprintf(`print("@%s%s@<" + %s + ">@")`, id, sub, val)
	}
	args := []string{}
	for _, a := range c.S {
		args = append(args, q(a))
	}
	call := func(a ...string) string { return "strings." + c.Fn + "(" + strings.Join(a, ", ") + ")" }
	switch c.Fn {
	case "Index", "Count":
		return []string{mark("", "itoa("+call(args...)+")")}
	case "Contains", "HasPrefix", "HasSuffix":
		return []string{"b" + id + " := " + call(args...), fmt.Sprintf(`print("@%s@<", b%s, ">@")`, id, id)}
	case "Join":
		el := []string{}
		for _, e := range c.List {
			el = append(el, q(e))
		}
		return []string{mark("", call("[]string{"+strings.Join(el, ", ")+"}", args[0]))}
	case "Split":
		return []string{"r" + id + " := " + call(args...), mark("", "itoa(len(r"+id+"))"),
			"for i" + id + " := 0; i" + id + " < len(r" + id + "); i" + id + "++ {",
			fmt.Sprintf(`	print("@%s." + itoa(i%s) + "@<" + r%s[i%s] + ">@")`, id, id, id, id), "}"}
	case "Repeat":
		return []string{mark("", call(args[0], strconv.Itoa(c.N)))}
	case "Replace":
		return []string{mark("", call(args[0], args[1], args[2], strconv.Itoa(c.N)))}
	case "Cut":
		return []string{fmt.Sprintf("x%s, y%s, z%s := %s", id, id, id, call(args...)), mark(".0", "x"+id), mark(".1", "y"+id), fmt.Sprintf(`print("@%s.2@<", z%s, ">@")`, id, id)}
	case "CutPrefix", "CutSuffix":
		return []string{fmt.Sprintf("x%s, z%s := %s", id, id, call(args...)), mark(".0", "x"+id), fmt.Sprintf(`print("@%s.1@<", z%s, ">@")`, id, id)}
	default:
		return []string{mark("", call(args...))}
	}
}

// expected returns marker-key -> expected text.
func (c sCall) expected(k int) map[string]string {
	id := strconv.Itoa(k)
	res := c.results()
	out := map[string]string{}
	switch c.Fn {
	case "Contains", "HasPrefix", "HasSuffix":
		out[id] = " " + res[0] + " "
	case "Split":
		out[id] = res[0]
		for i, p := range res[1:] {
			out[id+"."+strconv.Itoa(i)] = p
		}
	case "Cut":
		out[id+".0"], out[id+".1"], out[id+".2"] = res[0], res[1], " "+res[2]+" "
	case "CutPrefix", "CutSuffix":
		out[id+".0"], out[id+".1"] = res[0], " "+res[1]+" "
	default:
		out[id] = res[0]
	}
	return out
}

func (c sCall) String() string {
	parts := []string{}
	if c.List != nil {
		parts = append(parts, fmt.Sprintf("%q", c.List))
	}
	for _, a := range c.S {
		parts = append(parts, q(a))
	}
	if c.Fn == "Repeat" || c.Fn == "Replace" {
		parts = append(parts, strconv.Itoa(c.N))
	}
	return c.Fn + "(" + strings.Join(parts, ", ") + ")"
}

// shape classifies the argument tuple (signature of a violation; non-triviality).
func (c sCall) shape() string {
	fl := []string{}
	for i, a := range c.S {
		if a == "" {
			fl = append(fl, fmt.Sprintf("arg%d-empty", i))
		}
	}
	if len(c.S) >= 2 && c.Fn != "Join" {
		s, sub := c.S[0], c.S[1]
		switch {
		case sub == "":
		case len(sub) > len(s):
			fl = append(fl, "sub-longer")
		case s == sub:
			fl = append(fl, "equal")
		case strings.HasSuffix(s, sub):
			fl = append(fl, "match-at-end")
		case strings.HasPrefix(s, sub):
			fl = append(fl, "match-at-start")
		case strings.Contains(s, sub):
			fl = append(fl, "match-inside")
		}
		if sub != "" && strings.Count(s, sub) >= 2 {
			fl = append(fl, "multiple-matches")
		}
		if len(sub) >= 2 && sub != "" && strings.Contains(s+s, sub+sub[len(sub)-1:]) {
			fl = append(fl, "overlap-possible")
		}
	}
	if c.Fn == "Repeat" || c.Fn == "Replace" {
		switch {
		case c.N < 0:
			fl = append(fl, "count-negative")
		case c.N == 0:
			fl = append(fl, "count-zero")
		}
	}
	if c.Fn == "Join" {
		fl = append(fl, fmt.Sprintf("elems-%d", len(c.List)))
	}
	if len(fl) == 0 {
		return "plain"
	}
	return strings.Join(fl, ",")
}

type stringsCase struct {
	Kind     string  `json:"kind"` // "strings-batch"
	Property string  `json:"property"`
	Calls    []sCall `json:"calls"`
}

var reMark = regexp.MustCompile(`(?s)@([0-9.]+)@<(.*?)>@\n`)

type sMismatch struct {
	Call     sCall
	Key      string
	Want     string
	Got      string
	HaveGot  bool
	Whole    string
	Accepted bool
}

// runStringsBatch executes the calls in one script and returns the calls whose printed results differ.
func runStringsBatch(calls []sCall) (mis []sMismatch, harness string) {
	var sb strings.Builder
	sb.WriteString("import \"strings\"\n\n")
	want := map[string]string{}
	owner := map[string]int{}
	for k, c := range calls {
		for _, l := range c.program(k) {
			sb.WriteString(l + "\n")
		}
		for key, v := range c.expected(k) {
			want[key] = v
			owner[key] = k
		}
	}
	tr := run.TranspileSrc(map[string]string{"main.tsh": sb.String()}, "main.tsh", run.Bash)
	if !tr.Accepted() {
		return nil, "library program was not translated: " + tr.ErrText()
	}
	res := run.RunBash(tr.Script, run.ExecOpts{})
	got := map[string]string{}
	for _, m := range reMark.FindAllStringSubmatch(res.Stdout, -1) {
		got[m[1]] = m[2]
	}
	bad := map[int]bool{}
	for key, w := range want {
		g, ok := got[key]
		if (!ok || g != w) && !bad[owner[key]] {
			bad[owner[key]] = true
			mis = append(mis, sMismatch{Call: calls[owner[key]], Key: key, Want: w, Got: g, HaveGot: ok})
		}
	}
	for key := range got {
		if _, ok := want[key]; !ok {
			k, _ := strconv.Atoi(strings.SplitN(key, ".", 2)[0])
			if k < len(calls) && !bad[k] {
				bad[k] = true
				mis = append(mis, sMismatch{Call: calls[k], Key: key, Want: "(no such element)", Got: got[key], HaveGot: true})
			}
		}
	}
	if len(mis) == 0 && (res.Status != 0 || res.Stderr != "") {
		return nil, fmt.Sprintf("batch ended with status %d, stderr %q", res.Status, res.Stderr)
	}
	return mis, ""
}

func init() {
	replayFuncs["strings-batch"] = func(raw json.RawMessage) (bool, string) {
		var c stringsCase
		json.Unmarshal(raw, &c)
		mis, h := runStringsBatch(c.Calls)
		if h != "" {
			return false, h
		}
		if len(mis) == 0 {
			return true, ""
		}
		m := mis[0]
		return false, fmt.Sprintf("%s: result %s = %q, Go gives %q", m.Call, m.Key, m.Got, m.Want)
	}
}

func stringsOver(alpha []string, maxLen int) []string {
	out := []string{""}
	cur := []string{""}
	for l := 1; l <= maxLen; l++ {
		next := []string{}
		for _, p := range cur {
			for _, a := range alpha {
				next = append(next, p+a)
			}
		}
		out = append(out, next...)
		cur = next
	}
	return out
}

func c15Enumerate(maxLen int) []sCall {
	calls := []sCall{}
	ab := stringsOver([]string{"a", "b", " "}, maxLen)
	short := stringsOver([]string{"a", "b", " "}, 1)
	for _, fn := range []string{"Index", "Contains", "HasPrefix", "HasSuffix", "Count", "Split", "Cut", "CutPrefix", "CutSuffix", "TrimPrefix", "TrimSuffix", "TrimLeft", "TrimRight", "Trim"} {
		for _, s := range ab {
			for _, sub := range ab {
				calls = append(calls, sCall{Fn: fn, S: []string{s, sub}})
			}
		}
	}
	for _, s := range ab {
		for _, old := range ab {
			if len(old) > 2 {
				continue
			}
			for _, nw := range []string{"", "x", "ab"} {
				calls = append(calls, sCall{Fn: "ReplaceAll", S: []string{s, old, nw}})
			}
		}
		for _, old := range short {
			for _, nw := range []string{"", "x", "ab"} {
				for n := -2; n <= 4; n++ {
					calls = append(calls, sCall{Fn: "Replace", S: []string{s, old, nw}, N: n})
				}
			}
		}
		if len(s) <= 2 {
			for n := 0; n <= 4; n++ {
				calls = append(calls, sCall{Fn: "Repeat", S: []string{s}, N: n})
			}
		}
	}
	elems := []string{"", "a", "b "}
	lists := [][]string{{}}
	cur := [][]string{{}}
	for l := 1; l <= 3; l++ {
		next := [][]string{}
		for _, p := range cur {
			for _, e := range elems {
				next = append(next, append(append([]string{}, p...), e))
			}
		}
		lists = append(lists, next...)
		cur = next
	}
	for _, l := range lists {
		for _, sep := range []string{"", ",", " ", "ab"} {
			calls = append(calls, sCall{Fn: "Join", S: []string{sep}, List: l})
		}
	}
	for _, s := range stringsOver([]string{"a", " ", "\t", "\n"}, maxLen+1) {
		calls = append(calls, sCall{Fn: "TrimSpace", S: []string{s}})
	}
	for _, s := range stringsOver([]string{"a", " ", "\t"}, maxLen) {
		for _, cut := range []string{" ", "\t", " \t", "a "} {
			for _, fn := range []string{"TrimLeft", "TrimRight", "Trim"} {
				calls = append(calls, sCall{Fn: fn, S: []string{s, cut}})
			}
		}
	}
	return calls
}

func c15Report(r *rep.R, t rep.Skipper, batch []sCall, mis []sMismatch) {
	for _, m := range mis {
		sig := rep.Sig{"function": m.Call.Fn, "shape": m.Call.shape()}
		msg := fmt.Sprintf("%s: printed result %s = %q, Go's strings package gives %q", m.Call, m.Key, m.Got, m.Want)
		c := stringsCase{Kind: "strings-batch", Property: "C15", Calls: []sCall{m.Call}}
		if t != nil {
			r.FailCase(t, sig, msg, c)
		} else {
			r.Violate(sig, msg, c)
		}
	}
}

func TestC15(t *testing.T) {
	r, e := start(t, "C15",
		"for each of the 19 functions of std/strings.tsh: exhaustive enumeration of argument tuples over strings of length 0..L on the alphabet {a, b, blank} (Trim* and TrimSpace also tab/newline), counts -2..4 for Replace, 0..4 for Repeat, lists of 0-3 elements for Join (0-4 in the random part); plus random tuples up to length 8 with planted matches. ~25 calls per generated script, results printed between @k@< >@ markers so blanks survive. Oracle: Go's strings package of the toolchain. Non-trivial = tuples with an empty argument, a match at either end, several or overlapping matches, or a count <= 0; distinct by call text.",
		[]string{"Repeat with a negative count is excluded (Go panics: there is no return value to agree with)", "Bash target only (the property's anchors)"})
	defer r.Flush()
	maxLen := e.Pick(2, 3)
	all := c15Enumerate(maxLen)
	r.SetExtra("n_enumerated_calls_total", 0)
	const per = 24
	nb := 0
	mine := 0
	for i := 0; i < len(all); i += per {
		nb++
		if !e.Mine(nb) {
			continue
		}
		end := i + per
		if end > len(all) {
			end = len(all)
		}
		batch := all[i:end]
		mine += len(batch)
		for _, c := range batch {
			r.Eval()
			r.Class("fn:"+c.Fn, "shape:"+c.shape())
			if c.shape() != "plain" {
				r.NonTrivial(c.String(), map[string]any{"call": c.String(), "go": c.results()})
			}
		}
		mis, h := runStringsBatch(batch)
		if h != "" {
			// a failing batch is re-run call by call so one bad call cannot hide the others
			for _, c := range batch {
				m1, h1 := runStringsBatch([]sCall{c})
				if h1 != "" {
					r.Violate(rep.Sig{"function": c.Fn, "shape": c.shape(), "kind": "script-failed"}, c.String()+": "+h1, stringsCase{Kind: "strings-batch", Property: "C15", Calls: []sCall{c}})
				}
				c15Report(r, nil, nil, m1)
			}
			continue
		}
		c15Report(r, nil, batch, mis)
	}
	r.AddExtra("n_enumerated_calls_total", mine)
	r.SetExhaustive(false)

	// random tuples with planted matches
	checkRapid(t, r, func(t *rapid.T) {
		word := func(label string, max int) string {
			n := gen.Uniform(0, max).Draw(t, label+"-len")
			b := make([]byte, n)
			for i := range b {
				b[i] = "abc "[gen.Uniform(0, 3).Draw(t, label)]
			}
			return string(b)
		}
		n := gen.Uniform(3, 10).Draw(t, "ncalls")
		batch := []sCall{}
		for i := 0; i < n; i++ {
			sub := word("sub", 3)
			s := word("pre", 3) + sub + word("mid", 2)
			if gen.Uniform(0, 1).Draw(t, "twice") == 1 {
				s += sub + word("post", 2)
			}
			fn := []string{"Index", "Contains", "HasPrefix", "HasSuffix", "Count", "Split", "Cut", "CutPrefix", "CutSuffix", "TrimPrefix", "TrimSuffix", "TrimLeft", "TrimRight", "Trim", "Replace", "ReplaceAll", "Repeat", "Join", "TrimSpace"}[gen.Uniform(0, 18).Draw(t, "fn")]
			c := sCall{Fn: fn, S: []string{s, sub}}
			switch fn {
			case "Replace":
				c.S = append(c.S, word("new", 3))
				c.N = gen.Uniform(-2, 5).Draw(t, "count")
			case "ReplaceAll":
				c.S = append(c.S, word("new", 3))
			case "Repeat":
				c.S = []string{word("rep", 3)}
				c.N = gen.Uniform(0, 5).Draw(t, "count")
			case "Join":
				c.S = []string{sub}
				c.List = []string{}
				for k := gen.Uniform(0, 4).Draw(t, "nelems"); k > 0; k-- {
					c.List = append(c.List, word("elem", 3))
				}
			case "TrimSpace":
				c.S = []string{[]string{"", " ", "\t", "\n", " \t\n"}[gen.Uniform(0, 4).Draw(t, "lead")] + s + []string{"", " ", "\t", "\n", "\n \t"}[gen.Uniform(0, 4).Draw(t, "trail")]}
			}
			batch = append(batch, c)
		}
		for _, c := range batch {
			r.Eval()
			r.Class("random-fn:" + c.Fn)
			if c.shape() != "plain" {
				r.NonTrivial(c.String(), nil)
			}
		}
		mis, h := runStringsBatch(batch)
		if h != "" {
			r.FailCase(t, rep.Sig{"function": "batch", "kind": "script-failed"}, h, stringsCase{Kind: "strings-batch", Property: "C15", Calls: batch})
		}
		c15Report(r, t, batch, mis)
	})
}
