package checks

import (
	"fmt"
	"strings"

	"pgregory.net/rapid"
	"verif/harness/gen"
	"verif/harness/rep"
	"verif/harness/ts"
)

// c09Split — metamorphic family of C09: "a program split over imported files behaves as the composition of its
// modules". A generated single-file program (functions with loops, slices, strings, multi-returns, multi-assignments)
// is split: a call-closed set of functions that touch no global moves into an imported file (public names, reached
// through the alias); the reference semantics of the ORIGINAL program decide the output of the split program.
var c09SplitCfg = gen.Cfg{MaxStmts: 22, MaxDepth: 3, ExprDepth: 3, Funcs: true, MaxFuncs: 5, Slices: true, StrOps: true, LoopBudget: 10, DumpGlobal: true, ErrSpell: true, BigSlices: true, CmdNeutral: true, BareExpr: true, Panics: true}

type c09SplitProg struct {
	prog        *ts.Program
	ref         ts.Result // reference run of the ORIGINAL single-file program
	two         bool
	diamond     bool
	nMoved      int
	movedPublic []string // public names of the moved functions
	reason      string   // why nothing was built ("" = built)
}

// c09BuildSplit generates a single-file program and splits it (see c09Split). ok=false: nothing to split / invalid base.
func c09BuildSplit(t *rapid.T) (c09SplitProg, bool) {
	stmts, _ := gen.Stmts(t, c09SplitCfg)
	single := ts.Single(stmts)
	ref, err := refRun(single, 3000, nil, nil)
	if err != nil {
		reason := "invalid"
		if iv, ok := err.(ts.Invalid); ok {
			reason = iv.Reason
		}
		return c09SplitProg{reason: reason}, false
	}
	// which functions can move: no use of a global defined before them, only calls of functions that move too
	globals := map[string]bool{}
	moved := map[string]bool{}
	order := []string{}
	for _, s := range stmts {
		switch x := s.(type) {
		case ts.VarDecl:
			for _, n := range x.Names {
				globals[n] = true
			}
		case ts.FuncDef:
			usesGlobal, callsStay := false, false
			probe := &ts.Rewriter{Name: func(n, role string) string {
				switch role {
				case "var":
					if globals[n] {
						usesGlobal = true
					}
				case "func":
					if !moved[n] {
						callsStay = true
					}
				}
				return n
			}}
			probe.Stmts(x.Body)
			if !usesGlobal && !callsStay && gen.Uniform(0, 3).Draw(t, "move") != 0 {
				moved[x.Name] = true
				order = append(order, x.Name)
			}
		}
	}
	if len(moved) == 0 {
		return c09SplitProg{}, false // nothing to split
	}
	// two libraries when there is enough to split: the second one holds a call-closed prefix and is imported by the first
	inSecond := map[string]bool{}
	two := gen.Uniform(0, 1).Draw(t, "two-libraries") == 1
	// diamond: main imports lb and ld, both import lc, main does not (lc is reached along two paths, never directly)
	// (only for programs that end normally: the library function ld reaches is added for those only)
	diamond := two && gen.Uniform(0, 1).Draw(t, "diamond") == 1 && ref.Status == 0
	if two && !diamond && len(order) >= 2 {
		k := gen.Uniform(1, len(order)-1).Draw(t, "second-size")
		for _, n := range order[:k] {
			inSecond[n] = true // earlier definitions: they can only call each other
		}
	}
	pub := func(n string) string { return "L" + n }
	rewriteFor := func(file string) *ts.Rewriter {
		rw := &ts.Rewriter{}
		rw.Call = func(c ts.Call) ts.Call {
			if !moved[c.Name] {
				return c
			}
			home := "lb.tsh"
			if inSecond[c.Name] {
				home = "sub/lc.tsh"
			}
			c.Name = pub(c.Name)
			if home != file {
				c.Alias = map[string]string{"lb.tsh": "lb", "sub/lc.tsh": "lc"}[home]
			}
			return c
		}
		rw.Func = func(f ts.FuncDef) ts.FuncDef {
			if moved[f.Name] {
				f.Name = pub(f.Name)
			}
			return f
		}
		return rw
	}
	mainF, lb, lc := &ts.File{}, &ts.File{}, &ts.File{}
	for _, s := range stmts {
		if fd, ok := s.(ts.FuncDef); ok && moved[fd.Name] {
			if inSecond[fd.Name] {
				lc.Stmts = append(lc.Stmts, rewriteFor("sub/lc.tsh").Stmts([]ts.Stmt{s})...)
			} else {
				lb.Stmts = append(lb.Stmts, rewriteFor("lb.tsh").Stmts([]ts.Stmt{s})...)
			}
			continue
		}
		mainF.Stmts = append(mainF.Stmts, rewriteFor("main.tsh").Stmts([]ts.Stmt{s})...)
	}
	prog := &ts.Program{Files: map[string]*ts.File{"main.tsh": mainF, "lb.tsh": lb}, Main: "main.tsh"}
	mainF.Imports = []ts.Import{{Alias: "lb", Path: "lb.tsh"}}
	if two {
		prog.Files["sub/lc.tsh"] = lc
		lb.Imports = []ts.Import{{Alias: "lc", Path: "sub/lc.tsh"}}
		if diamond {
			ld := &ts.File{Imports: []ts.Import{{Alias: "lc", Path: "sub/lc.tsh"}}}
			ld.Stmts = []ts.Stmt{ts.FuncDef{Name: "Ld", Rets: []ts.Type{ts.TInt}, Body: []ts.Stmt{ts.Return{Vals: []ts.Expr{ts.Call{Alias: "lc", Name: "Lbump", Rets: []ts.Type{ts.TInt}}}}}}}
			prog.Files["ld.tsh"] = ld
			mainF.Imports = append(mainF.Imports, ts.Import{Alias: "ld", Path: "ld.tsh"})
		} else {
			mainF.Imports = append(mainF.Imports, ts.Import{Alias: "lc", Path: "sub/lc.tsh"})
		}
		mainF.GroupImports = gen.Uniform(0, 1).Draw(t, "group") == 1
	}
	pubs := []string{}
	for _, n := range order {
		pubs = append(pubs, pub(n))
	}
	if ref.Status == 0 {
		// every library also keeps a private global that only its own public function touches; the importer calls it last
		for _, lf := range []struct {
			alias string
			f     *ts.File
		}{{"lb", lb}, {"lc", lc}} {
			alias, f := lf.alias, lf.f
			if alias == "lc" && !two {
				continue
			}
			cnt := ts.VarRef{Name: "lcount", Ty: ts.TInt}
			f.Stmts = append([]ts.Stmt{ts.VarDecl{Names: []string{"lcount"}, Ty: ts.TInt, Tys: []ts.Type{ts.TInt}, Vals: []ts.Expr{ts.IntLit{V: 7}}, Form: ts.DeclShort}}, f.Stmts...)
			// the library updates its own global in one of the forms the language has (plain, compound, ++, -- then +2, nested)
			var upd []ts.Stmt
			switch gen.Uniform(0, 4).Draw(t, "library-global-update") {
			case 0:
				upd = []ts.Stmt{ts.Assign{Names: []string{"lcount"}, Vals: []ts.Expr{ts.Bin{Op: "+", Ty: ts.TInt, L: cnt, R: ts.IntLit{V: 1}}}}}
			case 1:
				upd = []ts.Stmt{ts.OpAssign{Name: "lcount", Ty: ts.TInt, Op: "+", Val: ts.IntLit{V: 1}}}
			case 2:
				upd = []ts.Stmt{ts.IncDec{Name: "lcount", Inc: true}}
			case 3:
				upd = []ts.Stmt{ts.IncDec{Name: "lcount", Inc: false}, ts.OpAssign{Name: "lcount", Ty: ts.TInt, Op: "+", Val: ts.IntLit{V: 2}}}
			default:
				upd = []ts.Stmt{ts.If{Cond: ts.Cmp{Op: ">", L: cnt, R: ts.IntLit{V: 0}}, Then: []ts.Stmt{ts.IncDec{Name: "lcount", Inc: true}}}}
			}
			// the public function goes through a PRIVATE one of its file (kept alive by every importer that uses the public one)
			f.Stmts = append(f.Stmts, ts.FuncDef{Name: "lhelp", Params: []ts.Param{{Name: "x", Ty: ts.TInt}}, Rets: []ts.Type{ts.TInt}, Body: []ts.Stmt{ts.Return{Vals: []ts.Expr{ts.VarRef{Name: "x", Ty: ts.TInt}}}}})
			f.Stmts = append(f.Stmts, ts.FuncDef{Name: "Lbump", Rets: []ts.Type{ts.TInt}, Body: append(upd, ts.Return{Vals: []ts.Expr{ts.Call{Name: "lhelp", Args: []ts.Expr{cnt}, Rets: []ts.Type{ts.TInt}}}})})
			call := ts.Call{Alias: alias, Name: "Lbump", Rets: []ts.Type{ts.TInt}}
			if alias == "lc" && diamond {
				call = ts.Call{Alias: "ld", Name: "Ld", Rets: []ts.Type{ts.TInt}} // main reaches lc only through ld
			}
			mainF.Stmts = append(mainF.Stmts, ts.Print{Args: []ts.Expr{ts.StrLit{V: alias}, call}}, ts.Print{Args: []ts.Expr{ts.StrLit{V: alias}, call}})
			ref.Stdout += alias + " 8\n" + alias + " 9\n"
			pubs = append(pubs, "Lbump")
		}
	}
	if diamond {
		pubs = append(pubs, "Ld")
		// both paths USE the shared file (its functions must be defined once although two importers keep them alive), and
		// the shared file has top-level code with a visible effect (it must run once, when the first importer is loaded)
		lb.Stmts = append(lb.Stmts, ts.FuncDef{Name: "Lvia", Rets: []ts.Type{ts.TInt}, Body: []ts.Stmt{ts.Return{Vals: []ts.Expr{ts.Call{Alias: "lc", Name: "Lbump", Rets: []ts.Type{ts.TInt}}}}}})
		pubs = append(pubs, "Lvia")
		mainF.Stmts = append(mainF.Stmts, ts.Print{Args: []ts.Expr{ts.StrLit{V: "via"}, ts.Call{Alias: "lb", Name: "Lvia", Rets: []ts.Type{ts.TInt}}}})
		lc.Stmts = append([]ts.Stmt{ts.Print{Args: []ts.Expr{ts.StrLit{V: "lc-start"}}}}, lc.Stmts...)
		ref.Stdout = "lc-start\n" + ref.Stdout + "via 10\n"
	}
	return c09SplitProg{prog: prog, ref: ref, two: two, diamond: diamond, nMoved: len(moved), movedPublic: pubs}, true
}

func c09Split(t *rapid.T, r *rep.R) bool {
	sp, ok := c09BuildSplit(t)
	if !ok {
		if sp.reason != "" {
			r.Discard("split:" + sp.reason)
			t.Skip(sp.reason)
		}
		return false // nothing to split: the caller goes on with the import-graph family
	}
	prog, ref, two := sp.prog, sp.ref, sp.two
	srcs := ts.Sources(prog)
	// the module semantics of the reference interpreter must agree with the single-file run (self-check of the harness)
	ref2, err2 := refRun(prog, 8000, nil, nil) // the split program runs a few more statements than the original (library counters, prints)
	if err2 != nil || ref2.Stdout != ref.Stdout || ref2.Status != ref.Status {
		r.HarnessError("split program and original disagree in the reference interpreter: %v\n%s", err2, mainSource(srcs, "main.tsh"))
		t.Skip("harness")
	}
	r.Eval()
	r.Class("split")
	if two {
		r.Class("split:two-libraries")
	}
	if sp.diamond {
		r.Class("split:diamond")
	}
	r.Class(fmt.Sprintf("split:moved-%d", sp.nMoved))
	all := mainSource(srcs, "main.tsh")
	r.NonTrivial(all, map[string]any{"files": srcs, "expect_stdout": ref.Stdout})
	c := execCase{Kind: "bash-run", Property: "C09", Files: srcs, Main: "main.tsh", ExpectStdout: ref.Stdout, ExpectStatus: ref.Status}
	out := runExecCase(c)
	if out.OK {
		// the Batch script of the same split program under the cmd.exe model (32-bit domain only)
		if ref.MaxAbs <= 2147483647 && !ref.Overflow {
			bc := batchCase{Kind: "batch-model-run", Property: "C09", Files: srcs, Main: "main.tsh", ExpectStdout: ref.Stdout, ExpectStatus: ref.Status, RefSteps: ref.Steps + 1}
			kind, msg, _ := runBatchCase(bc)
			switch {
			case strings.HasPrefix(kind, "inconclusive"):
				r.Inconclusive("split-batch:" + strings.SplitN(strings.TrimPrefix(kind, "inconclusive:"), ":", 3)[0])
			case kind != "":
				r.FailCase(t, rep.Sig{"kind": kind, "shape": "split", "backend": "batch"}, msg+"\n--- sources\n"+all, bc)
			default:
				r.Class("split:batch-model-agrees")
			}
		}
		return true
	}
	sig := rep.Sig{"kind": out.Kind, "shape": "split"}
	if out.ErrClass != "" {
		sig["error"] = out.ErrClass
	}
	if strings.Contains(out.Res.Stderr, "command not found") {
		sig["stderr"] = "command-not-found"
	}
	r.FailCase(t, sig, out.Msg+"\n--- sources\n"+all+"--- script\n"+out.Script, c)
	return true
}
