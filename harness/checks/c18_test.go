package checks

import (
	"fmt"
	"strconv"
	"strings"
	"sync"
	"testing"

	"pgregory.net/rapid"
	"verif/harness/gen"
	"verif/harness/lexref"
	"verif/harness/rep"
	"verif/harness/run"
)

// C18 — command calls get exactly the given arguments; pipes and capture are exact.
// Probe executables (bash scripts with the behaviour baked in) dump argc/argv length-prefixed
// into a log, copy stdin to stdout with a prefix, print their marker and exit with a set status.

func probeScript(name string, status int) string {
	return "#!/bin/bash\n{\nprintf 'argc=%d\\n' \"$#\"\nfor a in \"$@\"; do printf '%d:%s\\n' \"${#a}\" \"$a\"; done\n} >> \"" + name + ".log\"\n" +
		"while IFS= read -r line || [ -n \"$line\" ]; do printf '%s\\n' \"in:$line\"; done\nprintf '%s\\n' \"" + name + "-out\"\nexit " + strconv.Itoa(status) + "\n"
}

var c18Args = []struct{ s, class string }{
	{"plain", "neutral"}, {"x1", "neutral"}, {"", "empty"}, {"two words", "blank"}, {" lead", "edge-blank"}, {"trail ", "edge-blank"}, {"a  b", "blank-run"},
	{"*", "glob"}, {"?", "glob"}, {"[ab]", "glob"}, {"~", "tilde"}, {"{a,b}", "brace"}, {"a;b", "semicolon"}, {"a&b", "ampersand"}, {"a|b", "pipe"}, {">f", "redirect"}, {"<f", "redirect"},
	{"#c", "hash"}, {"-n", "dash"}, {"--", "dash"}, {"it's", "squote"}, {"(x)", "paren"}, {"!h", "bang"}, {"a=b", "equals"}, {"a\tb", "tab"}, {"l1\nl2", "newline"},
	{"$HOME", "dollar"}, {"$(touch CANARY)", "dollar"}, {"`touch CANARY`", "backquote"}, {"say \"hi\"", "dquote"}, {"back\\slash", "backslash"}, {"end\\", "backslash"},
	{"%d", "percent"}, {"100%", "percent"}, {"50%%", "percent"}, {"%s%s", "percent"}, {"a%20b", "percent"}, {"^", "caret"}, {"a^b", "caret"}, {"@x", "at"}, {"+", "plus"}, {",", "comma"}, {":", "colon"}, {"a,b:c+d", "punct"},
}

// reserved words of the shell that are ordinary identifiers in TypeShell
var c18ShellWords = []string{"time", "until", "select", "function", "coproc", "then", "done", "fi", "in", "do", "elif", "esac", "while"}

// c18Prelude defines and uses a user function and the string builtins, so that the script contains shell functions of its
// own (the user function and helper routines); c18EmittedNames reads their names off the script. A PROGRAM may be called
// like one of them: @name() still runs the program.
const c18Prelude = "func fq() string {\n\treturn \"q\"\n}\nxq := fq()\nwq := \"abc\"\nyq := wq[1]\nzq := len(wq)\nprint(xq, yq, zq)\n"

var c18EmittedOnce sync.Once
var c18Emitted []string

func c18EmittedNames() []string {
	c18EmittedOnce.Do(func() {
		tr := run.TranspileOne(c18Prelude, run.Bash)
		if !tr.Accepted() {
			return
		}
		for _, m := range reFuncDef.FindAllStringSubmatch(tr.Script, -1) {
			if _, kw := lexref.Keywords[m[1]]; !kw {
				c18Emitted = append(c18Emitted, m[1])
			}
		}
	})
	return c18Emitted
}

type c18Call struct {
	probe   int
	literal string // "": identifier form; else path literal
	raw     bool
	args    []int
	forms   []string // per argument: literal | variable | concat | function | input
}

func TestC18(t *testing.T) {
	r, e := start(t, "C18",
		"programs calling probe executables: argument lists of 0-5 strings over the C08 classes (empty, blanks, glob, ~, {a,b}, ; & | > < # - quotes, parentheses, !, =, %, ^, @, tab, embedded newline, $, $(cmd), backquote, double quote, backslash), each given as literal, variable, concatenation, function result or run-time input; pipelines of 1-3 probes; exit statuses 0-255; calls as statements (output must reach stdout) and as o, e, c := / var o, e, c = / o, e, c = captures (output must not reach stdout); program names as identifiers (found on PATH; a quarter of them spelled like reserved words of the shell: time, until, select, function, done, fi, in ..., some like a shell function the script itself defines: the user's function or a helper routine, names read off the script) and as interpreted/raw string literal paths, also paths containing a blank, '*', ';' or a leading dash in a directory name. Oracle: each probe's argv log equals the intended argument list exactly; stdout composition proves the pipe order; captured output and status are exact; no stray file appears. Non-trivial = two or more arguments of different non-neutral classes, or a pipeline of >= 2 with a non-zero status; distinct by program + stdin.",
		[]string{"arguments containing $, backquote, double quote or backslash are supplied through input() or variables read at run time (as source literals they fall under the listed C08 finding)", "probe output never ends in an empty line (capture removes trailing newlines by definition)", "Bash target only"})
	defer r.Flush()
	_ = e
	checkRapid(t, r, func(t *rapid.T) {
		nstmts := gen.Uniform(1, 3).Draw(t, "nstatements")
		var decl, body strings.Builder
		stdin := ""
		exec := map[string]string{}
		statuses := map[int]int{}
		expLogs := map[string]string{}
		expOut := ""
		nprobe := 0
		usedWord := map[string]bool{}
		needPrelude := false
		inputs := map[int]string{}
		vars := map[int]string{}
		classes := map[string]bool{}
		decl.WriteString("func same(a string) string {\n\treturn a\n}\n")
		maxPipe := 0
		nonZero := false
		argExpr := func(ai int) (string, string) {
			v := c18Args[ai].s
			forms := []string{"literal", "variable", "concat", "function"}
			if needsRuntime(v) {
				forms = []string{"input", "input-concat"}
			}
			form := forms[gen.Uniform(0, len(forms)-1).Draw(t, "arg-form")]
			switch form {
			case "literal":
				return strconv.Quote(v), form
			case "variable":
				if n, ok := vars[ai]; ok {
					return n, form
				}
				n := fmt.Sprintf("v%d", ai)
				decl.WriteString(n + " := " + strconv.Quote(v) + "\n")
				vars[ai] = n
				return n, form
			case "concat":
				if len(v) < 2 {
					return strconv.Quote(v) + " + \"\"", form
				}
				return strconv.Quote(v[:1]) + " + " + strconv.Quote(v[1:]), form
			case "function":
				return "same(" + strconv.Quote(v) + ")", form
			default:
				n, ok := inputs[ai]
				if !ok {
					n = fmt.Sprintf("in%d", ai)
					decl.WriteString(n + " := input()\n")
					stdin += v + "\n"
					inputs[ai] = n
				}
				if form == "input-concat" {
					return n + " + \"\"", form
				}
				return n, form
			}
		}
		for s := 0; s < nstmts; s++ {
			plen := []int{1, 1, 2, 2, 3}[gen.Uniform(0, 4).Draw(t, "pipe-len")]
			if plen > maxPipe {
				maxPipe = plen
			}
			calls := []string{}
			stream := []string{}
			lastStatus := 0
			for k := 0; k < plen; k++ {
				nprobe++
				name := fmt.Sprintf("p%d", nprobe)
				// a program may be called like a word the shell reserves for itself (a command name all the same)
				if gen.Uniform(0, 3).Draw(t, "shell-word-name") == 0 {
					w := c18ShellWords[gen.Uniform(0, len(c18ShellWords)-1).Draw(t, "shell-word")]
					if _, kw := lexref.Keywords[w]; !kw && !usedWord[w] {
						usedWord[w] = true
						name = w
						r.Class("program-named-like-shell-word")
					}
				} else if em := c18EmittedNames(); len(em) > 0 && gen.Uniform(0, 5).Draw(t, "emitted-function-name") == 0 {
					// ... or like a shell function the script itself defines (the user's function or a helper routine)
					w := em[gen.Uniform(0, len(em)-1).Draw(t, "emitted-name")]
					if !usedWord[w] {
						usedWord[w] = true
						name = w
						needPrelude = true
						r.Class("program-named-like-emitted-function")
					}
				}
				status := []int{0, 0, 0, 1, 2, 7, 42, 127, 255}[gen.Uniform(0, 8).Draw(t, "status")]
				statuses[nprobe] = status
				lastStatus = status
				exec["bin/"+name] = probeScript(name, status)
				nargs := gen.Uniform(0, 5).Draw(t, "nargs")
				args := []string{}
				log := fmt.Sprintf("argc=%d\n", nargs)
				for a := 0; a < nargs; a++ {
					ai := gen.Uniform(0, len(c18Args)-1).Draw(t, "arg")
					ex, form := argExpr(ai)
					args = append(args, ex)
					v := c18Args[ai].s
					log += fmt.Sprintf("%d:%s\n", len(v), v)
					classes[c18Args[ai].class] = true
					r.Class("arg:"+c18Args[ai].class, "form:"+form)
				}
				expLogs[name+".log"] = log
				callName := name
				switch gen.Uniform(0, 5).Draw(t, "name-form") {
				case 2:
					callName = "\"./bin/" + name + "\""
				case 3:
					callName = "`bin/" + name + "`"
				case 4:
					// a path with a blank and a glob character in a directory name (the same probe under another path)
					exec["my dir/b*n/"+name] = probeScript(name, status)
					callName = "\"./my dir/b*n/" + name + "\""
					r.Class("program-path-with-blank")
				case 5:
					exec["-odd;dir/"+name] = probeScript(name, status)
					callName = "`./-odd;dir/" + name + "`"
					r.Class("program-path-with-blank")
				}
				calls = append(calls, "@"+callName+"("+strings.Join(args, ", ")+")")
				for i := range stream {
					stream[i] = "in:" + stream[i]
				}
				stream = append(stream, name+"-out")
			}
			if lastStatus != 0 && plen >= 2 {
				nonZero = true
			}
			chain := strings.Join(calls, " | ")
			form := gen.Uniform(0, 3).Draw(t, "stmt-form")
			bodyAll := &body
			var body strings.Builder // this call chain and its prints; possibly wrapped into a block that runs once
			wrap := 0
			if gen.Uniform(0, 2).Draw(t, "wrapped") == 0 {
				wrap = gen.Uniform(1, 5).Draw(t, "wrap-form")
				r.Class(fmt.Sprintf("wrapped:%d", wrap))
			}
			switch form {
			case 0:
				body.WriteString(chain + "\n")
				expOut += strings.Join(stream, "\n") + "\n"
				r.Class("statement")
			default:
				o, er, cd := fmt.Sprintf("o%d", s), fmt.Sprintf("e%d", s), fmt.Sprintf("c%d", s)
				switch form {
				case 1:
					body.WriteString(o + ", " + er + ", " + cd + " := " + chain + "\n")
				case 2:
					body.WriteString("var " + o + ", " + er + ", " + cd + " = " + chain + "\n")
				default:
					body.WriteString("var " + o + ", " + er + " string\nvar " + cd + " int\n" + o + ", " + er + ", " + cd + " = " + chain + "\n")
				}
				body.WriteString("print(\"<\" + " + o + " + \">\")\nprint(\"code\", " + cd + ")\n")
				expOut += "<" + strings.Join(stream, "\n") + ">\ncode " + strconv.Itoa(lastStatus) + "\n"
				r.Class("capture")
			}
			r.Class(fmt.Sprintf("pipeline-%d", plen))
			bodyAll.WriteString(wrapInBlock(body.String(), wrap, s))
		}
		body.WriteString("print(\"end\")\n") // the script's own exit status is then that of print, not of the last probe
		expOut += "end\n"
		bodyText := body.String()
		if gen.Uniform(0, 1).Draw(t, "in-function") == 1 {
			// the same calls executed inside a function (locals are mangled and emitted differently)
			r.Class("in-function")
			var fb strings.Builder
			fb.WriteString("func run() {\n")
			for _, l := range strings.Split(strings.TrimSuffix(bodyText, "\n"), "\n") {
				fb.WriteString("\t" + l + "\n")
			}
			fb.WriteString("}\nrun()\n")
			bodyText = fb.String()
		}
		src := decl.String() + bodyText
		if needPrelude {
			src = c18Prelude + src
			expOut = "q b 3\n" + expOut
		}
		c := execCase{Kind: "bash-run", Property: "C18", Files: map[string]string{"main.tsh": src}, Main: "main.tsh", Stdin: stdin, Exec: exec,
			ExpectStdout: expOut, ExpectStatus: 0, ExpectFS: expLogs, CheckFS: true, Env: []string{"PATH={BOX}/bin"}}
		r.Eval()
		nonNeutral := 0
		for k := range classes {
			if k != "neutral" {
				nonNeutral++
			}
		}
		if nonNeutral >= 2 || (maxPipe >= 2 && nonZero) {
			r.NonTrivial(src+"|"+stdin, map[string]any{"program": src, "stdin": stdin, "expect_logs": expLogs, "expect_stdout": expOut})
		}
		out := runExecCase(c)
		if out.OK {
			return
		}
		sig := rep.Sig{"kind": out.Kind, "classes": joinKeys(classes), "pipeline": strconv.Itoa(maxPipe)}
		r.FailCase(t, sig, out.Msg+"\n--- stdin\n"+stdin+"--- source\n"+src+"--- script\n"+out.Script, c)
	})
}
