package checks

import (
	"fmt"
	"strconv"
	"strings"
	"testing"

	"pgregory.net/rapid"
	"verif/harness/gen"
	"verif/harness/rep"
)

// C17 — write, read and exists behave as a line store over the file system.
// A random history of write / append / read / exists over a small path pool becomes ONE program;
// the model is map[path][]line. Paths and contents of the dangerous classes come from stdin
// (run-time origin) because source literals of those classes are a listed C08 finding.

var c17Paths = []struct{ p, class string }{
	{"a.txt", "plain"}, {"b.txt", "plain"}, {"sub/c.txt", "subdir"}, {"a b.txt", "blank"}, {"x  y.txt", "double-blank"},
	{"-d.txt", "leading-dash"}, {"e;f.txt", "semicolon"}, {"g*.txt", "glob"}, {"h$i.txt", "dollar"}, {"k'l.txt", "quote"}, {" lead.txt", "edge-blank"}, {"m&n.txt", "ampersand"}, {"-", "lone-dash"}, {"-n", "option-like"}, {"--", "double-dash"},
}

var c17Contents = []struct{ s, class string }{
	{"hello", "neutral"}, {"", "empty"}, {"two words", "neutral"}, {" lead", "edge-blank"}, {"trail ", "edge-blank"}, {"a  b", "blank-run"},
	{"say \"hi\"", "dquote"}, {"it's", "squote"}, {"$HOME", "dollar"}, {"$(touch CANARY)", "dollar"}, {"`touch CANARY`", "backquote"}, {"back\\slash", "backslash"}, {"trailing\\", "backslash"},
	{"*", "glob"}, {"-n", "dash"}, {"-e x", "dash"}, {"a\tb", "tab"}, {"a;b&c|d>e", "meta"}, {"#hash", "hash"}, {"line1\nline2", "newline"}, {"!bang", "bang"}, {"%s%d", "percent"},
}

func needsRuntime(s string) bool { return strings.ContainsAny(s, "$`\"\\") }

type c17Op struct {
	kind    string // write | overwrite-false | append | read | exists
	path    int
	content int
	flag    int // spelling of the third argument: 0 literal, 1 variable, 2 comparison, 3 exists(path) where its value is the wanted one
	path2   int // read-two: the second file
	force   int // 0: helper / wrapping drawn at random; 1: direct and unwrapped; 2: through a helper function, unwrapped
}

func TestC17(t *testing.T) {
	r, e := start(t, "C17",
		"random histories (<= 12 operations quick, <= 30 thorough) of write(p,s), write(p,s,false), write(p,s,true) (the flag spelled as a literal, a variable, a comparison or exists(p) where that has the wanted value), read(p) (only where the model says p exists; also two reads in one statement: printed together, compared, concatenated), write(p, read(q)[, true|false]) with the data taken directly from a read of another existing file or of p itself and exists(p) (its result printed, stored in a slice literal, compared, combined, passed to a function; and 'exists(p), a function appending to p, exists(p)' as operands of one statement) over 2-4 paths drawn from {plain, sub-directory, blank, double blank, leading dash, the names -, -n and --, ;, *, $, ', leading blank, &} and contents from {neutral, empty, edge blanks, blank runs, quotes, $, $(cmd), backquote, backslash, glob, -n, tab, shell metacharacters, #, embedded newline, !, %}; the whole history is one generated program (a third of the operations wrapped in a construct that runs them once: taken branch, else branch, one-pass loop, switch case, branch inside a loop), values literal or held in variables read from stdin, written plainly or as a call result, a parenthesised expression, a concatenation or a slice element, half the time executed inside a function with paths/contents as parameters; a third of the operations are performed by small helper functions (hwrite, hread, ...) called from the history instead of directly; a sixth of the steps are triples 'observe p (read/exists), a helper FUNCTION writes p, observe p again' in one straight-line block. Oracle: model map[path][]line: file bytes = lines joined by newline + newline, read = lines joined, exists = key present; the sandbox afterwards holds exactly the model's files. Non-trivial = append after overwrite after append on one path, or >= 2 paths with a non-plain path or content; distinct by history.",
		[]string{"reading a missing file is outside the statement (never generated)", "contents ending in a newline are not generated (read strips trailing newlines by definition)", "values containing $, backquote, double quote or backslash are supplied at run time through input(): as source literals they fall under the listed C08 finding"})
	defer r.Flush()
	maxOps := e.Pick(12, 30)
	checkRapid(t, r, func(t *rapid.T) {
		np := gen.Uniform(2, 4).Draw(t, "npaths")
		pool := []int{}
		for len(pool) < np {
			k := gen.Uniform(0, len(c17Paths)-1).Draw(t, "path")
			dup := false
			for _, q := range pool {
				if q == k {
					dup = true
				}
			}
			if !dup {
				pool = append(pool, k)
			}
		}
		nops := gen.Uniform(2, maxOps).Draw(t, "nops")
		model := map[string][]string{}
		history := []string{}
		ops := []c17Op{}
		for i := 0; i < nops; i++ {
			p := pool[gen.Uniform(0, np-1).Draw(t, "op-path")]
			if gen.Uniform(0, 14).Draw(t, "exists-on-directory") == 0 {
				// exists() is about paths, not only files: the pre-created directory exists
				ops = append(ops, c17Op{kind: "exists-dir"})
				history = append(history, "exists:directory")
				continue
			}
			if gen.Uniform(0, 5).Draw(t, "observe-call-observe") == 0 {
				// observe p, let a FUNCTION change p, observe p again - all in one straight-line block: what a caller
				// knows about a file does not survive a call
				path := c17Paths[p].p
				obs := "exists"
				if _, ok := model[path]; ok && gen.Uniform(0, 2).Draw(t, "observe-by-read") != 0 {
					obs = "read"
				}
				ci := gen.Uniform(0, len(c17Contents)-1).Draw(t, "content")
				chg := []string{"write", "append"}[gen.Uniform(0, 1).Draw(t, "change")]
				ops = append(ops, c17Op{kind: obs, path: p, force: 1}, c17Op{kind: chg, path: p, content: ci, force: 2})
				if chg == "write" {
					model[path] = []string{c17Contents[ci].s}
				} else {
					model[path] = append(model[path], c17Contents[ci].s)
				}
				obs2 := []string{"read", "exists"}[gen.Uniform(0, 1).Draw(t, "observe-again")]
				ops = append(ops, c17Op{kind: obs2, path: p, force: 1})
				history = append(history, "observe-call-observe:"+obs+":"+chg+":"+obs2+":"+c17Paths[p].class)
				continue
			}
			// "exists-append-exists": exists(p), a FUNCTION that appends to p, exists(p) - all operands of one statement
			kinds := []string{"write", "write", "append", "append", "overwrite-false", "exists", "exists-append-exists"}
			if _, ok := model[c17Paths[p].p]; ok {
				kinds = append(kinds, "read", "read")
				// two reads alive in one statement (the second path: any other existing file, else the same one)
				kinds = append(kinds, "read-two")
			}
			// a file written with what read() returns, directly as the data argument: from another file or from the file itself
			anyExisting := []int{}
			for _, q := range pool {
				if _, ok := model[c17Paths[q].p]; ok {
					anyExisting = append(anyExisting, q)
				}
			}
			if len(anyExisting) > 0 {
				kinds = append(kinds, "write-from-read")
			}
			k := kinds[gen.Uniform(0, len(kinds)-1).Draw(t, "op-kind")]
			op := c17Op{kind: k, path: p, content: gen.Uniform(0, len(c17Contents)-1).Draw(t, "content"), flag: gen.Uniform(0, 3).Draw(t, "flag-spelling")}
			if k == "read-two" {
				op.path2 = p
				existing := []int{}
				for _, q := range pool {
					if _, ok := model[c17Paths[q].p]; ok && q != p {
						existing = append(existing, q)
					}
				}
				if len(existing) > 0 {
					op.path2 = existing[gen.Uniform(0, len(existing)-1).Draw(t, "second-path")]
				}
				op.flag = gen.Uniform(0, 2).Draw(t, "read-two-form")
			}
			if k == "write-from-read" {
				op.path2 = anyExisting[gen.Uniform(0, len(anyExisting)-1).Draw(t, "source-path")]
				if _, ok := model[c17Paths[p].p]; ok && gen.Uniform(0, 1).Draw(t, "source-is-destination") == 1 {
					op.path2 = p
				}
				op.flag = gen.Uniform(0, 2).Draw(t, "copy-form") // 0 write, 1 append, 2 write with false
			}
			ops = append(ops, op)
			path := c17Paths[p].p
			switch k {
			case "write-from-read":
				src := append([]string{}, model[c17Paths[op.path2].p]...)
				if op.flag == 1 {
					model[path] = append(append([]string{}, model[path]...), src...)
				} else {
					model[path] = src
				}
			case "write", "overwrite-false":
				model[path] = []string{c17Contents[op.content].s}
			case "append", "exists-append-exists":
				model[path] = append(model[path], c17Contents[op.content].s)
			}
			history = append(history, k+":"+c17Paths[p].class+":"+c17Contents[op.content].class)
		}
		inFunc := gen.Uniform(0, 1).Draw(t, "in-function") == 1
		viaVar := gen.Uniform(0, 1).Draw(t, "values-in-variables") == 1

		// build the program
		var decl, body strings.Builder
		stdin := ""
		pathExpr := map[int]string{}
		contExpr := map[int]string{}
		params := []string{}
		args := []string{}
		valueRef := func(kind string, idx int, v string) string {
			m := contExpr
			if kind == "p" {
				m = pathExpr
			}
			if ex, ok := m[idx]; ok {
				return ex
			}
			name := fmt.Sprintf("%s%d", kind, idx)
			switch {
			case needsRuntime(v) || strings.Contains(v, "\n") && false:
				decl.WriteString(name + " := input()\n")
				stdin += v + "\n"
			case viaVar || inFunc:
				decl.WriteString(name + " := " + strconv.Quote(v) + "\n")
			default:
				m[idx] = strconv.Quote(v)
				return m[idx]
			}
			if inFunc {
				params = append(params, name+"x string")
				args = append(args, name)
				m[idx] = name + "x"
			} else {
				m[idx] = name
			}
			return m[idx]
		}
		expOut := ""
		cur := map[string][]string{}
		flagVars := false
		usesHelpers := false
		flagExpr := func(op c17Op, want bool, pe string) string {
			_, there := cur[c17Paths[op.path].p]
			switch {
			case op.flag == 1:
				flagVars = true
				return map[bool]string{true: "fyes", false: "fno"}[want]
			case op.flag == 2:
				return map[bool]string{true: "len(" + pe + ") > 0", false: "len(" + pe + ") == 0"}[want]
			case op.flag == 3 && there == want:
				return "exists(" + pe + ")"
			}
			return map[bool]string{true: "true", false: "false"}[want]
		}
		usesIdf := false
		dressN := 0
		// dress: the same value written as a call result, a parenthesised expression, a concatenation or a slice element
		dress := func(b *strings.Builder, expr string) string {
			form := gen.Uniform(0, 7).Draw(t, "operand-form")
			if form <= 3 {
				return expr
			}
			r.Class(fmt.Sprintf("operand-form:%d", form))
			dressN++
			switch form {
			case 4:
				usesIdf = true
				return "idf(" + expr + ")"
			case 5:
				return "(" + expr + ")"
			case 6:
				return "\"\" + " + expr
			default:
				name := fmt.Sprintf("el%d", dressN)
				b.WriteString(name + " := []string{\"x\", " + expr + "}\n")
				return name + "[1]"
			}
		}
		bodyAll := &body
		for opIdx, op := range ops {
			var body strings.Builder // one operation; possibly wrapped into a block that runs it once
			wrap := 0
			if op.force == 0 && gen.Uniform(0, 2).Draw(t, "wrapped") == 0 {
				wrap = gen.Uniform(1, 5).Draw(t, "wrap-form")
				r.Class(fmt.Sprintf("wrapped:%d", wrap))
			}
			flush := func() { bodyAll.WriteString(wrapInBlock(body.String(), wrap, opIdx)) }
			// the operation performed directly or by a helper function called from here (a caller must not assume that
			// the files it knows are untouched by the functions it calls)
			via := op.force == 2 || (op.force == 0 && gen.Uniform(0, 2).Draw(t, "via-helper") == 0)
			if op.force == 2 {
				r.Class("observe-call-observe")
			}
			if via {
				usesHelpers = true
				r.Class("via-helper-function")
			}
			if op.kind == "exists-dir" {
				body.WriteString("print(\"exists\", exists(\"sub\"), exists(\"nosuchdir\"))\n")
				flush()
				expOut += "exists 1 0\n"
				continue
			}
			path := c17Paths[op.path].p
			pe := dress(&body, valueRef("p", op.path, path))
			switch op.kind {
			case "write":
				ce := dress(&body, valueRef("c", op.content, c17Contents[op.content].s))
				if via {
					body.WriteString("hwrite(" + pe + ", " + ce + ")\n")
				} else {
					body.WriteString("write(" + pe + ", " + ce + ")\n")
				}
				cur[path] = []string{c17Contents[op.content].s}
			case "overwrite-false":
				ce := dress(&body, valueRef("c", op.content, c17Contents[op.content].s))
				if via {
					body.WriteString("hwritef(" + pe + ", " + ce + ", " + flagExpr(op, false, pe) + ")\n")
				} else {
					body.WriteString("write(" + pe + ", " + ce + ", " + flagExpr(op, false, pe) + ")\n")
				}
				cur[path] = []string{c17Contents[op.content].s}
			case "append":
				ce := dress(&body, valueRef("c", op.content, c17Contents[op.content].s))
				if via {
					body.WriteString("hwritef(" + pe + ", " + ce + ", " + flagExpr(op, true, pe) + ")\n")
				} else {
					body.WriteString("write(" + pe + ", " + ce + ", " + flagExpr(op, true, pe) + ")\n")
				}
				cur[path] = append(cur[path], c17Contents[op.content].s)
			case "write-from-read":
				path2 := c17Paths[op.path2].p
				pe2 := dress(&body, valueRef("p", op.path2, path2))
				src := append([]string{}, cur[path2]...)
				r.Class("write-from-read")
				if path2 == path {
					r.Class("write-from-read:same-file")
				}
				rd := "read(" + pe2 + ")"
				if via {
					rd = "hread(" + pe2 + ")"
				}
				switch op.flag {
				case 0:
					body.WriteString("write(" + pe + ", " + rd + ")\n")
					cur[path] = src
				case 1:
					body.WriteString("write(" + pe + ", " + rd + ", true)\n")
					cur[path] = append(append([]string{}, cur[path]...), src...)
				default:
					body.WriteString("write(" + pe + ", " + rd + ", false)\n")
					cur[path] = src
				}
			case "read":
				if via {
					body.WriteString("print(\"<\" + hread(" + pe + ") + \">\")\n")
				} else {
					body.WriteString("print(\"<\" + read(" + pe + ") + \">\")\n")
				}
				expOut += "<" + strings.Join(cur[path], "\n") + ">\n"
			case "read-two":
				path2 := c17Paths[op.path2].p
				pe2 := dress(&body, valueRef("p", op.path2, path2))
				a, b := strings.Join(cur[path], "\n"), strings.Join(cur[path2], "\n")
				rd := func(e string) string {
					if via {
						return "hread(" + e + ")"
					}
					return "read(" + e + ")"
				}
				switch op.flag {
				case 0:
					body.WriteString("print(" + rd(pe) + ", " + rd(pe2) + ")\n")
					expOut += a + " " + b + "\n"
				case 1:
					body.WriteString("print(" + rd(pe) + " == " + rd(pe2) + ", " + rd(pe) + " != " + rd(pe2) + ")\n")
					if a == b {
						expOut += "1 0\n"
					} else {
						expOut += "0 1\n"
					}
				default:
					body.WriteString("print(\"<\" + (" + rd(pe) + " + " + rd(pe2) + ") + \">\")\n")
					expOut += "<" + a + b + ">\n"
				}
			case "exists-append-exists":
				ce := dress(&body, valueRef("c", op.content, c17Contents[op.content].s))
				usesHelpers = true
				r.Class("exists-append-exists")
				before := "0"
				if _, ok := cur[path]; ok {
					before = "1"
				}
				body.WriteString("print(\"eae\", exists(" + pe + "), happendb(" + pe + ", " + ce + "), exists(" + pe + "))\n")
				expOut += "eae " + before + " 1 1\n"
				cur[path] = append(cur[path], c17Contents[op.content].s)
			case "exists":
				// the result of exists() used directly in other positions than a printed value
				switch form := gen.Uniform(0, 5).Draw(t, "exists-form"); {
				case via:
				case form == 1:
					body.WriteString(fmt.Sprintf("eb%d := []bool{exists(%s), false}\n", opIdx, pe))
					pe = fmt.Sprintf("\x00eb%d[0]", opIdx)
				case form == 2:
					pe = "\x00exists(" + pe + ") == true"
				case form == 3:
					pe = "\x00exists(" + pe + ") && true"
				case form == 4:
					usesHelpers = true
					pe = "\x00hidb(exists(" + pe + "))"
				}
				if strings.HasPrefix(pe, "\x00") {
					r.Class("exists-result-used-directly")
					body.WriteString("print(\"exists\", " + pe[1:] + ")\n")
				} else if via {
					body.WriteString("print(\"exists\", hexists(" + pe + "))\n")
				} else {
					body.WriteString("print(\"exists\", exists(" + pe + "))\n")
				}
				if _, ok := cur[path]; ok {
					expOut += "exists 1\n"
				} else {
					expOut += "exists 0\n"
				}
			}
			flush()
		}
		var src strings.Builder
		if flagVars {
			src.WriteString("fyes := true\nfno := 1 > 2\n")
		}
		if usesIdf {
			src.WriteString("func idf(v string) string {\n\treturn v\n}\n")
		}
		if usesHelpers {
			src.WriteString("func hwrite(p string, c string) {\n\twrite(p, c)\n}\nfunc hwritef(p string, c string, a bool) {\n\twrite(p, c, a)\n}\nfunc hread(p string) string {\n\treturn read(p)\n}\nfunc hexists(p string) bool {\n\treturn exists(p)\n}\nfunc happendb(p string, c string) bool {\n\twrite(p, c, true)\n\treturn true\n}\nfunc hidb(b bool) bool {\n\treturn b\n}\n")
		}
		src.WriteString(decl.String())
		if inFunc {
			src.WriteString("func run(" + strings.Join(params, ", ") + ") {\n")
			for _, l := range strings.Split(strings.TrimSuffix(body.String(), "\n"), "\n") {
				src.WriteString("\t" + l + "\n")
			}
			src.WriteString("}\nrun(" + strings.Join(args, ", ") + ")\n")
		} else {
			src.WriteString(body.String())
		}
		expFS := map[string]string{}
		for p, lines := range model {
			expFS[p] = strings.Join(lines, "\n") + "\n"
		}
		c := execCase{Kind: "bash-run", Property: "C17", Files: map[string]string{"main.tsh": src.String()}, Main: "main.tsh", Stdin: stdin,
			PreDirs: []string{"sub"}, ExpectStdout: expOut, ExpectStatus: 0, ExpectFS: expFS, CheckFS: true, Env: []string{"PATH=/usr/bin:/bin"}, Tags: history}
		r.Eval()
		nonPlain := false
		seq := map[string]string{}
		aoa := false
		for _, op := range ops {
			if op.kind == "exists-dir" {
				r.Class("op:exists-on-directory")
				continue
			}
			if c17Paths[op.path].class != "plain" || (c17Contents[op.content].class != "neutral" && op.kind != "read" && op.kind != "exists" && op.kind != "read-two") {
				nonPlain = true
			}
			k := map[string]string{"write": "w", "overwrite-false": "w", "append": "a"}[op.kind]
			if k != "" {
				seq[c17Paths[op.path].p] += k
				if strings.Contains(seq[c17Paths[op.path].p], "awa") {
					aoa = true
				}
			}
			r.Class("op:"+op.kind, "path:"+c17Paths[op.path].class)
			if op.kind == "append" || op.kind == "overwrite-false" {
				r.Class(fmt.Sprintf("flag-spelling:%d", op.flag))
			}
			if op.kind != "read" && op.kind != "exists" && op.kind != "read-two" {
				r.Class("content:" + c17Contents[op.content].class)
			}
		}
		if inFunc {
			r.Class("in-function")
		}
		if aoa {
			r.Class("append-after-overwrite-after-append")
		}
		if aoa || (len(model) >= 2 && nonPlain) {
			r.NonTrivial(src.String()+"|"+stdin, map[string]any{"program": src.String(), "stdin": stdin, "expect_files": expFS, "expect_stdout": expOut})
		}
		out := runExecCase(c)
		if out.OK {
			return
		}
		// signature: the first operation whose single-step program already fails, else the history shape
		sig := rep.Sig{"kind": out.Kind, "function": strconv.FormatBool(inFunc)}
		pc, cc := map[string]bool{}, map[string]bool{}
		for _, op := range ops {
			if op.kind == "exists-dir" {
				pc["directory"] = true
				continue
			}
			pc[c17Paths[op.path].class] = true
			if op.kind != "read" && op.kind != "exists" && op.kind != "read-two" {
				cc[c17Contents[op.content].class] = true
			}
		}
		sig["paths"] = joinKeys(pc)
		sig["contents"] = joinKeys(cc)
		r.FailCase(t, sig, out.Msg+"\n--- stdin\n"+stdin+"--- source\n"+src.String()+"--- script\n"+out.Script, c)
	})
}

func joinKeys(m map[string]bool) string {
	ks := []string{}
	for k := range m {
		ks = append(ks, k)
	}
	sortStrings(ks)
	return strings.Join(ks, "+")
}
