package checks

import (
	"encoding/json"
	"fmt"
	"os"
	"strings"
	"testing"

	"pgregory.net/rapid"
	"verif/harness/cmdmodel"
	"verif/harness/corpus"
	"verif/harness/gen"
	"verif/harness/rep"
	"verif/harness/run"
	"verif/harness/ts"
)

// C05 — Batch target preserves the same program semantics under cmd.exe's rules (executable model).

type batchCase struct {
	Kind         string            `json:"kind"` // "batch-model-run"
	Property     string            `json:"property"`
	Files        map[string]string `json:"files"`
	Main         string            `json:"main"`
	ExpectStdout string            `json:"expect_stdout"`
	ExpectStatus int               `json:"expect_status"`
	Trim         bool              `json:"trim,omitempty"` // suite expectations are trimmed
	Note         string            `json:"note,omitempty"`
	RefSteps     int               `json:"ref_steps,omitempty"` // steps the reference interpreter needed (0 = unknown)
}

// runBatchCase returns (kind, message, model result). kind "" = agrees; "inconclusive:<class>" = outside the model.
func runBatchCase(c batchCase) (string, string, cmdmodel.Result) {
	tr := run.TranspileSrc(c.Files, c.Main, run.Batch)
	if !tr.Accepted() {
		return "rejected", "program was not translated for Batch: " + tr.ErrText(), cmdmodel.Result{}
	}
	limit := 400000 + 400*c.RefSteps
	res := cmdmodel.Run(tr.Script, limit)
	if res.Inconclusive == "step-limit" && c.RefSteps > 0 {
		// the reference semantics terminate after RefSteps steps; no statement expands to hundreds of script lines per step
		return "no-termination", fmt.Sprintf("the script is still running after %d lines under the cmd.exe model; the reference semantics finish after %d steps\n--- output so far\n%.600s\n--- script\n%s", limit, c.RefSteps, res.Stdout, strings.ReplaceAll(tr.Script, "\r\n", "\n")), res
	}
	if cls := res.Inconclusive; strings.HasPrefix(cls, "stray-paren") || strings.HasPrefix(cls, "unsupported:command:)") || (strings.HasPrefix(cls, "syntax:") && !strings.HasPrefix(cls, "syntax:trailing-text")) {
		// (text after a complete command - "syntax:trailing-text" - stays inconclusive: it may be a form the model cannot read)
		// execution reached a ")" outside any block or text that is no command: cmd.exe's documented rules give the
		// script no meaning from here on (in practice: an error message, or branches that run although another one was taken)
		return "malformed-at-run-time", fmt.Sprintf("execution under the cmd.exe model reaches text that is no command (%s)\n--- output so far\n%.600s\n--- script\n%s", cls, res.Stdout, strings.ReplaceAll(tr.Script, "\r\n", "\n")), res
	}
	if res.Inconclusive != "" {
		return "inconclusive:" + res.Inconclusive, res.Inconclusive, res
	}
	got, want := res.Stdout, c.ExpectStdout
	if c.Trim {
		got, want = strings.TrimSpace(got), strings.TrimSpace(want)
	}
	if got != want {
		return "stdout", fmt.Sprintf("stdout under the cmd.exe model differs\n--- expected\n%s\n--- got\n%s\n--- script\n%s", want, got, strings.ReplaceAll(tr.Script, "\r\n", "\n")), res
	}
	if res.Status != c.ExpectStatus {
		return "status", fmt.Sprintf("exit status %d under the model, expected %d", res.Status, c.ExpectStatus), res
	}
	return "", "", res
}

func init() {
	replayFuncs["batch-model-run"] = func(raw json.RawMessage) (bool, string) {
		var c batchCase
		json.Unmarshal(raw, &c)
		k, msg, _ := runBatchCase(c)
		if strings.HasPrefix(k, "inconclusive") {
			return true, ""
		}
		return k == "", k + ": " + msg
	}
}

func c05NonTrivial(res cmdmodel.Result) bool {
	return (res.GotoOutOfBlock >= 1 && res.Calls >= 1) || res.NumericIfTwoDigit >= 1
}

func TestC05(t *testing.T) {
	r, e := start(t, "C05",
		"the generators of C01-C04 under a cmd profile (values within 32 bit, strings over [A-Za-z0-9_.,:+@#] plus single inner blanks, never the words on/off), biased to what the property names: sequences and nestings of loops and conditionals, slices crossing 9 -> 10 elements, several functions; plus the calibration corpus (every literal success program of the repository's shared test files with a literal expected output). The emitted Batch text is executed under an executable cmd.exe model (parse-time % expansion per line as read, run-time ! expansion, blocks read as one command, goto = abandon block + forward-then-wrap label search, call/exit /B frames, numeric-vs-string IF, 32-bit set /A). Oracle: stdout lines and exit status equal the reference interpreter's (calibration corpus: the suite's own expectation); a script still running after 400000 + 400 x (reference steps) lines, where the reference semantics finish, does not terminate. A run that reaches a ')' outside any block, or text that is no command, is malformed at run time (never seen on a correct tree). Non-trivial = the run executes a goto out of a parenthesised block and a call, or a numeric IF with a two-digit operand; distinct by source text.",
		[]string{"fidelity of the cmd.exe model is an assumption, bounded by calibration on the suite's programs whose Windows outcome upstream CI establishes", "runs that reach a construct outside the model (set /p, for over a command or file, program calls, if exist, substring of an undefined variable, numbers beyond 32 bit) are inconclusive, never verdicts", "cases in which an intermediate value leaves the int32 range are discarded (the property fixes 32-bit integers as the domain)"})
	defer r.Flush()
	repo := os.Getenv("VERIF_REPO")
	if repo == "" {
		repo = "/repo"
	}
	// calibration + corpus part (deterministic, split across shards)
	suite := corpus.Suite(repo)
	ncal, nmatch, nincon := 0, 0, 0
	for i, p := range suite {
		if !p.HasExpect || p.ExpectErr || !e.Mine(i) {
			continue
		}
		c := batchCase{Kind: "batch-model-run", Property: "C05", Files: map[string]string{"main.tsh": p.Source}, Main: "main.tsh", ExpectStdout: p.Expect, ExpectStatus: 0, Trim: true, Note: "suite:" + p.Name}
		if strings.Contains(p.Source, "panic(") {
			c.ExpectStatus = 1
		}
		kind, msg, res := runBatchCase(c)
		ncal++
		r.Eval()
		r.Class("calibration")
		switch {
		case strings.HasPrefix(kind, "inconclusive"):
			nincon++
			r.Inconclusive("calibration:" + strings.SplitN(strings.TrimPrefix(kind, "inconclusive:"), ":", 3)[0])
		case kind == "":
			nmatch++
			if c05NonTrivial(res) {
				r.NonTrivial(p.Source, nil)
			}
		default:
			r.Violate(rep.Sig{"kind": kind, "corpus": p.Name}, "suite program "+p.Name+": "+msg, c)
		}
	}
	r.AddExtra("n_calibration_programs", ncal)
	r.AddExtra("n_calibration_agree", nmatch)
	r.AddExtra("n_calibration_inconclusive", nincon)

	// the deterministic sweeps of C01 / C03 / C04 (operator pairs, substring and index bounds incl. the 9 -> 10
	// boundary, operand-position table) under the cmd.exe model
	sweeps := append(append([]*ts.Program{}, c01SweepPrograms()...), c03SweepPrograms(e.Pick(6, 12))...)
	for _, tp := range c04TablePrograms() {
		stmts := append(append(append([]ts.Stmt{}, gen.TracerPrelude()...), tp.funcs...), tp.stmts...)
		sweeps = append(sweeps, ts.Single(stmts))
	}
	nsweep := 0
	for i, p := range sweeps {
		if !e.Mine(i) {
			continue
		}
		ref, err := refRun(p, 400000, nil, nil)
		if err != nil {
			r.HarnessError("sweep program %d is outside the interpreter's domain: %v", i, err)
			continue
		}
		if ref.MaxAbs > 2147483647 || ref.Overflow {
			continue
		}
		files := ts.Sources(p)
		c := batchCase{Kind: "batch-model-run", Property: "C05", Files: files, Main: p.Main, ExpectStdout: ref.Stdout, ExpectStatus: ref.Status, Note: fmt.Sprintf("sweep-%d", i), RefSteps: ref.Steps + 1}
		kind, msg, res := runBatchCase(c)
		nsweep++
		r.Eval()
		r.Class("sweep")
		switch {
		case strings.HasPrefix(kind, "inconclusive"):
			r.Inconclusive("sweep:" + strings.SplitN(strings.TrimPrefix(kind, "inconclusive:"), ":", 3)[0])
		case kind == "":
			if c05NonTrivial(res) {
				r.NonTrivial(files[p.Main], nil)
			}
		default:
			r.Violate(rep.Sig{"kind": kind, "sweep": fmt.Sprint(i)}, fmt.Sprintf("sweep program %d: %s\n--- source\n%s", i, msg, files[p.Main]), c)
		}
	}
	r.AddExtra("n_sweep_programs", nsweep)

	cfgs := []gen.Cfg{
		{MaxStmts: 20, MaxDepth: 4, ExprDepth: 3, LoopBudget: 16, CmdNeutral: true, ErrSpell: true, BareExpr: true, Panics: true},
		{MaxStmts: 22, MaxDepth: 3, ExprDepth: 3, Funcs: true, MaxFuncs: 4, Slices: true, LoopBudget: 10, DumpGlobal: true, CmdNeutral: true, ErrSpell: true, BareExpr: true, Panics: true},
		{MaxStmts: 22, MaxDepth: 3, ExprDepth: 3, Funcs: true, MaxFuncs: 3, Slices: true, StrOps: true, LoopBudget: 10, DumpGlobal: true, BigSlices: true, CmdNeutral: true, ErrSpell: true, BareExpr: true, Panics: true},
		{MaxStmts: 14, MaxDepth: 3, ExprDepth: 3, Funcs: true, MaxFuncs: 2, Slices: true, StrOps: true, LoopBudget: 8, Tracers: true, CmdNeutral: true, ErrSpell: true, BareExpr: true, Panics: true},
	}
	maxSteps := e.Pick(1500, 5000)
	checkRapid(t, r, func(t *rapid.T) {
		k := gen.Uniform(0, len(cfgs)-1).Draw(t, "profile")
		p, tags := gen.Program(t, cfgs[k])
		renamedDesc := ""
		if len(p.Files) == 1 && gen.Uniform(0, 5).Draw(t, "spelled-like-emitted-names") == 0 {
			// identifiers spelled like the names the Batch script itself uses (cmd.exe folds the case of variables and labels):
			// the meaning of the program is the same, so the reference decides as for any other program
			mf := p.Files[p.Main]
			if rs, desc := renameLikeEmitted(t, mf.Stmts); desc != "" {
				nf := *mf
				nf.Stmts = rs
				p = &ts.Program{Files: map[string]*ts.File{p.Main: &nf}, Main: p.Main}
				renamedDesc = desc
			}
		}
		ref, err := refRun(p, maxSteps, nil, nil)
		if err != nil {
			reason := "invalid"
			if iv, ok := err.(ts.Invalid); ok {
				reason = iv.Reason
			}
			r.Discard(reason)
			t.Skip(reason)
		}
		if ref.MaxAbs > 2147483647 || ref.Overflow {
			r.Discard("leaves-int32")
			t.Skip("leaves int32")
		}
		files := ts.Sources(p)
		src := files[p.Main]
		c := batchCase{Kind: "batch-model-run", Property: "C05", Files: files, Main: p.Main, ExpectStdout: ref.Stdout, ExpectStatus: ref.Status, RefSteps: ref.Steps + 1}
		kind, msg, res := runBatchCase(c)
		if renamedDesc != "" {
			if kind == "rejected" || strings.Contains(kind, "reject") {
				r.Discard("renamed-program-rejected") // a renaming may be refused (C10)
				t.Skip("renamed program rejected")
			}
			msg = "identifiers renamed (" + renamedDesc + "): " + msg
		}
		if strings.HasPrefix(kind, "inconclusive") {
			r.Inconclusive(strings.SplitN(strings.TrimPrefix(kind, "inconclusive:"), ":", 3)[0] + ":" + strings.Join(strings.SplitN(strings.TrimPrefix(kind, "inconclusive:"), ":", 3)[1:], ":"))
			t.Skip(kind)
		}
		r.Eval()
		r.Class(fmt.Sprintf("profile-%d", k))
		if renamedDesc != "" {
			r.Class("identifiers-spelled-like-emitted-names")
		}
		for _, tg := range []string{"nested-loop", "loop", "if", "elif", "func", "slice-write", "break", "continue", "two-digit-index"} {
			if tags[tg] > 0 {
				r.Class(tg)
			}
		}
		if ref.Events["two-digit-index-write"]+ref.Events["two-digit-index-read"] > 0 {
			r.Class("dyn:two-digit-index")
		}
		if c05NonTrivial(res) {
			r.NonTrivial(src, map[string]any{"source": src, "expect_stdout": ref.Stdout, "goto_out_of_block": res.GotoOutOfBlock, "calls": res.Calls})
		}
		if kind != "" {
			r.FailCase(t, rep.Sig{"kind": kind}, msg+"\n--- source\n"+src, c)
		}
	})
}
