package checks

import (
	"crypto/sha256"
	"fmt"
	"path/filepath"
	"strings"
	"testing"

	"pgregory.net/rapid"
	"verif/harness/gen"
	"verif/harness/rep"
	"verif/harness/run"
	"verif/harness/ts"
)

// C09 — multi-file programs link correctly and unused-function removal is safe.

type c9File struct {
	name    string
	imports []int // indices of imported lib files (higher index only: acyclic)
	aliases []string
}

func hashPrefix(content string) string {
	h := sha256.Sum256([]byte(content))
	return fmt.Sprintf("%x", h[:])[0:7]
}

func intLit(v int) ts.Expr { return ts.IntLit{V: int64(v)} }

func TestC09(t *testing.T) {
	r, e := start(t, "C09",
		"programs of 2-5 files in a temporary tree (sub-directories included) with a random ACYCLIC import graph: chains, diamonds, the same file under two aliases in one importer, std 'strings' next to local files, single and grouped import syntax; each library file has 1-3 public and 0-2 private functions (calling own private functions and imported functions through aliases), 0-2 globals used by its top-level code, 0-3 top-level statements that print and call; equal function and variable names across files on purpose; a nonce comment steers the SHA-256 prefix of each file to digit-leading or letter-leading. Second family (a third of the cases): a generated single-file program (functions with loops, slices, strings, multi-returns) is split - a call-closed set of functions that touch no global moves into one or two imported files under public names - and must print what the reference semantics of the ORIGINAL program prescribe, under bash and (inside the 32-bit domain) as Batch under the cmd.exe model of C05. Negative cases: call of a private function, of an undefined function, through an unknown alias, local import without alias, duplicate alias; visibility enumeration over name spellings (priv, pUB, _hidden, _Hidden, __x, x9, p_Q are private; Pub, P, P9, P_q, PUB, Zz public), each used inside its own file and through the alias. Oracle: module-composition semantics in the reference interpreter (a file's top-level code runs once, after its imports', names resolve per file, public = upper-case initial): exact stdout, status 0, empty stderr (no 'command not found'). Non-trivial = >= 2 imported files with top-level calls, a diamond / repeated alias, or a digit-leading prefix on a file with a global; distinct by sources.",
		[]string{"globals of a library file are used by its own top-level code and by its own functions; other files reach a library only through alias.Func (alias.variable is not part of the language)", "cycles belong to C13"})
	defer r.Flush()
	_ = e
	checkRapid(t, r, func(t *rapid.T) {
		if gen.Uniform(0, 1).Draw(t, "family") == 0 && c09Split(t, r) {
			return
		}
		g := c09BuildGraph(t)
		prog, names, nlibs, diamond, repeated, libsWithTopCalls, usesOwnGlobal, leadingTop, hasGlobal, wantDigit := g.prog, g.names, g.nlibs, g.diamond, g.repeated, g.libsWithTopCalls, g.usesOwnGlobal, g.leadingTop, g.hasGlobal, g.wantDigit
		// print sources with the steering nonce as first line
		srcs := map[string]string{}
		digitWithGlobal := false
		for i, n := range names {
			base := ts.FileString(prog.Files[n])
			srcs[n] = base
			for nonce := 0; nonce < 400; nonce++ {
				cand := fmt.Sprintf("// n=%d\n", nonce) + base
				c := hashPrefix(cand)[0]
				if (c >= '0' && c <= '9') == wantDigit[i] {
					srcs[n] = cand
					break
				}
			}
			if i > 0 {
				c := hashPrefix(srcs[n])[0]
				if c >= '0' && c <= '9' {
					r.Class("prefix:digit-leading")
					if hasGlobal[i] {
						digitWithGlobal = true
					}
				} else {
					r.Class("prefix:letter-leading")
				}
			}
		}
		// the std library is part of the program for the reference interpreter
		stdFile := &ts.File{Stmts: []ts.Stmt{ts.FuncDef{Name: "Repeat", Params: []ts.Param{{Name: "s", Ty: ts.TString}, {Name: "count", Ty: ts.TInt}}, Rets: []ts.Type{ts.TString},
			Body: []ts.Stmt{
				ts.VarDecl{Names: []string{"out"}, Ty: ts.TString, Tys: []ts.Type{ts.TString}, Vals: []ts.Expr{ts.StrLit{V: ""}}, Form: ts.DeclShort},
				ts.For{Kind: ts.ForClause, Init: ts.VarDecl{Names: []string{"i"}, Ty: ts.TInt, Tys: []ts.Type{ts.TInt}, Vals: []ts.Expr{intLit(0)}, Form: ts.DeclShort},
					Cond: ts.Cmp{Op: "<", L: ts.VarRef{Name: "i", Ty: ts.TInt}, R: ts.VarRef{Name: "count", Ty: ts.TInt}}, Post: ts.IncDec{Name: "i", Inc: true},
					Body: []ts.Stmt{ts.OpAssign{Name: "out", Ty: ts.TString, Op: "+", Val: ts.VarRef{Name: "s", Ty: ts.TString}}}},
				ts.Return{Vals: []ts.Expr{ts.VarRef{Name: "out", Ty: ts.TString}}}}}}}
		refProg := &ts.Program{Files: map[string]*ts.File{}, Main: "main.tsh"}
		for n, f := range prog.Files {
			refProg.Files[n] = f
			for _, im := range f.Imports {
				if im.Path == "strings" {
					refProg.Files[filepath.Join(filepath.Dir(n), "strings")] = stdFile
				}
			}
		}
		ref, err := refRun(refProg, 5000, nil, nil)
		if err != nil {
			if iv, ok := err.(ts.Invalid); ok && strings.HasPrefix(iv.Reason, "unspecified order") {
				r.Discard("unspecified-order")
				t.Skip("unspecified order")
			}
			r.HarnessError("reference interpreter rejects a generated import graph: %v\n%s", err, mainSource(srcs, "main.tsh"))
			t.Skip("harness")
		}
		r.Eval()
		if diamond {
			r.Class("diamond")
		}
		if repeated {
			r.Class("repeated-alias")
		}
		if usesOwnGlobal {
			r.Class("library-function-uses-own-global")
		}
		if leadingTop {
			r.Class("library-starts-with-top-level-code")
		}
		r.Class(fmt.Sprintf("files-%d", nlibs+1))
		spelled := map[string]map[string]bool{}
		for n, f := range prog.Files {
			for _, im := range f.Imports {
				if im.Path != "strings" {
					if spelled[im.Path] == nil {
						spelled[im.Path] = map[string]bool{}
					}
					spelled[im.Path][filepath.Join(filepath.Dir(n), im.Path)] = true
				}
			}
		}
		for _, targets := range spelled {
			if len(targets) >= 2 {
				r.Class("one-import-spelling-for-different-files")
				break
			}
		}
		all := mainSource(srcs, "main.tsh")
		if libsWithTopCalls >= 2 || diamond || repeated || digitWithGlobal {
			r.NonTrivial(all, map[string]any{"files": srcs, "expect_stdout": ref.Stdout})
		}
		c := execCase{Kind: "bash-run", Property: "C09", Files: srcs, Main: "main.tsh", ExpectStdout: ref.Stdout, ExpectStatus: 0}
		if gen.Uniform(0, 2).Draw(t, "after-other-target") == 0 {
			// the script of the second target of one transpiler object (tsh -t batch -t bash): linking must not depend on what
			// the object translated before
			c.AfterOtherTarget = true
			r.Class("second-target-of-one-transpiler-object")
		}
		out := runExecCase(c)
		if out.OK {
			return
		}
		shape := []string{}
		if diamond {
			shape = append(shape, "diamond")
		}
		if repeated {
			shape = append(shape, "repeated-alias")
		}
		if libsWithTopCalls >= 2 {
			shape = append(shape, "two-toplevel-callers")
		}
		if digitWithGlobal {
			shape = append(shape, "digit-prefix-global")
		}
		sig := rep.Sig{"kind": out.Kind, "shape": strings.Join(shape, "+")}
		if out.ErrClass != "" {
			sig["error"] = out.ErrClass
		}
		if strings.Contains(out.Res.Stderr, "command not found") {
			sig["stderr"] = "command-not-found"
		}
		r.FailCase(t, sig, out.Msg+"\n--- sources\n"+all+"--- script\n"+out.Script, c)
	})

	// negative cases: rejected for both targets
	if e.Shard == 0 {
		lib := "func priv() int {\n\treturn 1\n}\nfunc Pub() int {\n\treturn priv()\n}\n"
		neg := []struct {
			main, note string
		}{
			{"import l \"lib.tsh\"\nprint(l.priv())\n", "call-of-private-function"},
			{"import l \"lib.tsh\"\nprint(l.Missing())\n", "call-of-undefined-function"},
			{"import l \"lib.tsh\"\nprint(q.Pub())\n", "unknown-alias"},
			{"import \"lib.tsh\"\nprint(1)\n", "local-import-without-alias"},
			{"import l \"lib.tsh\"\nprint(Pub())\n", "imported-function-without-alias"},
			{"import (\n\tl \"lib.tsh\"\n\tl \"lib.tsh\"\n)\nprint(l.Pub())\n", "duplicate-alias"},
		}
		for _, n := range neg {
			c := verdictCase{Kind: "verdict", Property: "C09", Files: map[string]string{"main.tsh": n.main, "lib.tsh": lib}, Main: "main.tsh", Expect: "reject", Note: n.note}
			r.Eval()
			r.NonTrivial(n.main, nil)
			if kind, msg := checkVerdict(c); kind != "" {
				r.Violate(rep.Sig{"negative": n.note, "kind": kind}, n.note+": "+msg, c)
			}
		}
		pos := verdictCase{Kind: "verdict", Property: "C09", Files: map[string]string{"main.tsh": "import l \"lib.tsh\"\nprint(l.Pub())\n", "lib.tsh": lib}, Main: "main.tsh", Expect: "accept", Note: "public-function-through-alias"}
		if kind, msg := checkVerdict(pos); kind != "" {
			r.Violate(rep.Sig{"negative": pos.Note, "kind": kind}, pos.Note+": "+msg, pos)
		}
		// public = upper-case initial letter, whatever else the name contains: spellings of both kinds, each used inside its
		// own file (always allowed) and through the alias (allowed exactly for the public ones)
		for _, sp := range []struct {
			name   string
			public bool
		}{{"priv", false}, {"p", false}, {"pUB", false}, {"_hidden", false}, {"_Hidden", false}, {"_", false}, {"__x", false}, {"x9", false}, {"p_Q", false},
			{"Pub", true}, {"P", true}, {"P9", true}, {"P_q", true}, {"PUB", true}, {"Zz", true}} {
			if sp.name == "_" {
				continue // the blank identifier is no function name in Go; not asserted either way
			}
			libSrc := "func " + sp.name + "() int {\n\treturn 41\n}\nfunc Wrap() int {\n\treturn " + sp.name + "() + 1\n}\n"
			for _, use := range []struct{ main, note, expect string }{
				{"import l \"lib.tsh\"\nprint(l.Wrap())\n", "own-file-use", "accept"},
				{"import l \"lib.tsh\"\nprint(l." + sp.name + "())\n", "through-alias", map[bool]string{true: "accept", false: "reject"}[sp.public]},
			} {
				c := verdictCase{Kind: "verdict", Property: "C09", Files: map[string]string{"main.tsh": use.main, "lib.tsh": libSrc}, Main: "main.tsh", Expect: use.expect, Note: "spelling " + sp.name + " " + use.note}
				r.Eval()
				r.NonTrivial(use.main+libSrc, nil)
				r.Class("visibility:" + use.note + ":" + use.expect)
				if kind, msg := checkVerdict(c); kind != "" {
					r.Violate(rep.Sig{"visibility": sp.name, "use": use.note, "kind": kind}, c.Note+": "+msg, c)
				}
			}
		}
	}
	// two DIFFERENT files with byte-identical content are two modules: each runs its top-level code and keeps its own
	// globals (known finding C09-identical-content-files: the namespace of a file is a hash of its content only)
	if e.Shard == 0 {
		ident := "counter := 0\nprint(\"init\")\nfunc Next() int {\n\tcounter = counter + 1\n\treturn counter\n}\n"
		c := execCase{Kind: "bash-run", Property: "C09", Main: "main.tsh", ExpectStdout: "init\ninit\n1 1\n", ExpectStatus: 0,
			Files: map[string]string{"main.tsh": "import (\n\ta \"c.tsh\"\n\tb \"copy/c.tsh\"\n)\nprint(a.Next(), b.Next())\n", "c.tsh": ident, "copy/c.tsh": ident}}
		r.Eval()
		r.Class("identical-content-files")
		r.NonTrivial("identical-content-files", nil)
		if out := runExecCase(c); !out.OK {
			r.Violate(rep.Sig{"kind": out.Kind, "shape": "identical-content-files"}, "two files with identical content: "+out.Msg, c)
		}
	}
	// two files that differ MINIMALLY are two modules: a blank more inside a string literal, a tab for a blank, the case of a
	// letter, another comment, another indentation, a blank line more at the end (whatever a file's identity is derived from, it
	// must tell these apart; each module runs its own top-level code and keeps its own counter)
	{
		lib := func(lit, comment, indent, tail string) string {
			return "counter := 0\nfunc Tag() string {\n" + indent + "return \"" + lit + "\"\n}\n" + comment + "print(\"init\", Tag())\nfunc Next() int {\n" + indent + "counter = counter + 1\n" + indent + "return counter\n}\n" + tail
		}
		type variant struct{ lit, comment, indent, tail string }
		pairs := []struct {
			name string
			a, b variant
		}{
			{"blank-run-in-literal", variant{"a b", "", "\t", ""}, variant{"a  b", "", "\t", ""}},
			{"tab-for-blank-in-literal", variant{"a b", "", "\t", ""}, variant{"a\tb", "", "\t", ""}},
			{"trailing-blank-in-literal", variant{"ab", "", "\t", ""}, variant{"ab ", "", "\t", ""}},
			{"letter-case-in-literal", variant{"ab", "", "\t", ""}, variant{"aB", "", "\t", ""}},
			{"comment-text", variant{"ab", "// x\n", "\t", ""}, variant{"ab", "// y\n", "\t", ""}},
			{"comment-presence", variant{"ab", "", "\t", ""}, variant{"ab", "// note\n", "\t", ""}},
			{"indentation", variant{"ab", "", "\t", ""}, variant{"ab", "", "  ", ""}},
			{"blank-line-at-end", variant{"ab", "", "\t", ""}, variant{"ab", "", "\t", "\n"}},
		}
		for i, pr := range pairs {
			if !e.Mine(i*2 + 1) {
				continue
			}
			fa, fb := lib(pr.a.lit, pr.a.comment, pr.a.indent, pr.a.tail), lib(pr.b.lit, pr.b.comment, pr.b.indent, pr.b.tail)
			c := execCase{Kind: "bash-run", Property: "C09", Main: "main.tsh", ExpectStatus: 0,
				ExpectStdout: "init " + pr.a.lit + "\ninit " + pr.b.lit + "\n" + pr.a.lit + " " + pr.b.lit + "\n1 1 2\n",
				Files: map[string]string{"main.tsh": "import (\n\ta \"a.tsh\"\n\tb \"sub/b.tsh\"\n)\nprint(a.Tag(), b.Tag())\nprint(a.Next(), b.Next(), a.Next())\n", "a.tsh": fa, "sub/b.tsh": fb}}
			r.Eval()
			r.Class("near-identical-files")
			r.NonTrivial("near-identical-files:"+pr.name, nil)
			if out := runExecCase(c); !out.OK {
				r.Violate(rep.Sig{"kind": out.Kind, "shape": "near-identical-files", "difference": pr.name}, "two imported files that differ only in "+pr.name+": "+out.Msg, c)
			}
		}
	}
	// two DIFFERENT files whose content hashes share the first 7 hex digits (f1a2e1d; found by a birthday search over nonce
	// comments) are two modules as well (known finding C09-hash-prefix-collision: same root, identity = 28-bit hash prefix)
	if e.Shard == 0 {
		mk := func(i int) string {
			return fmt.Sprintf("// n=%d\nfunc Name() string {\n\treturn \"v%d\"\n}\n", i, i)
		}
		c := execCase{Kind: "bash-run", Property: "C09", Main: "main.tsh", ExpectStdout: "v6365 v26624\n", ExpectStatus: 0,
			Files: map[string]string{"main.tsh": "import (\n\ta \"a.tsh\"\n\tb \"b.tsh\"\n)\nprint(a.Name(), b.Name())\n", "a.tsh": mk(6365), "b.tsh": mk(26624)}}
		r.Eval()
		r.Class("hash-prefix-collision")
		r.NonTrivial("hash-prefix-collision", nil)
		if out := runExecCase(c); !out.OK {
			r.Violate(rep.Sig{"kind": out.Kind, "shape": "hash-prefix-collision"}, "two files whose hashes share the 7-digit prefix: "+out.Msg, c)
		}
	}
	_ = run.Bash
}

// c09Graph is a generated program over 2-5 files with a random acyclic import graph (see the rule text of C09).
type c09Graph struct {
	prog             *ts.Program
	names            []string
	nlibs            int
	diamond          bool
	repeated         bool
	libsWithTopCalls int
	usesOwnGlobal    bool
	leadingTop       bool
	hasGlobal        map[int]bool
	wantDigit        map[int]bool
}

func c09BuildGraph(t *rapid.T) c09Graph {
	nlibs := gen.Uniform(1, 4).Draw(t, "nlibs")
	names := []string{"main.tsh"}
	// two layouts of the tree; in the second one several files have the same base name, so importers in different
	// directories spell DIFFERENT files identically ("util.tsh" seen from . and from pkg/) and the same file differently
	layout := [][]string{{"liba.tsh", "lib/b.tsh", "c.tsh", "lib/deep/d.tsh"}, {"pkg/p.tsh", "util.tsh", "pkg/util.tsh", "pkg/sub/util.tsh"}}[gen.Uniform(0, 1).Draw(t, "layout")]
	for i := 0; i < nlibs; i++ {
		names = append(names, layout[i])
	}
	files := make([]c9File, nlibs+1)
	for i := range files {
		files[i].name = names[i]
	}
	// edges: file i imports a subset of libs with higher index; main imports at least one
	diamond := false
	repeated := false
	importCount := map[int]int{}
	for i := 0; i <= nlibs; i++ {
		for j := i + 1; j <= nlibs; j++ {
			p := 45
			if i == 0 {
				p = 70
			}
			if gen.Uniform(0, 99).Draw(t, "edge") < p {
				files[i].imports = append(files[i].imports, j)
				files[i].aliases = append(files[i].aliases, fmt.Sprintf("m%d", j))
				importCount[j]++
				if gen.Uniform(0, 9).Draw(t, "second-alias") == 0 {
					files[i].imports = append(files[i].imports, j)
					files[i].aliases = append(files[i].aliases, fmt.Sprintf("n%d", j))
					repeated = true
				}
			}
		}
	}
	if len(files[0].imports) == 0 {
		files[0].imports, files[0].aliases = []int{1}, []string{"m1"}
		importCount[1]++
	}
	for _, c := range importCount {
		if c >= 2 {
			diamond = true
		}
	}
	prog := &ts.Program{Files: map[string]*ts.File{}, Main: "main.tsh"}
	libsWithTopCalls := 0
	usesOwnGlobal := false
	leadingTop := false
	hasGlobal := map[int]bool{}
	wantDigit := map[int]bool{}
	// build libs from the last to the first so that callee signatures are known
	pubs := map[int][]string{}
	for i := nlibs; i >= 0; i-- {
		f := &ts.File{}
		rel := func(j int) string {
			p, _ := filepath.Rel(filepath.Dir(names[i]), names[j])
			return p
		}
		for k, j := range files[i].imports {
			f.Imports = append(f.Imports, ts.Import{Alias: files[i].aliases[k], Path: rel(j)})
		}
		useStd := gen.Uniform(0, 3).Draw(t, "use-std") == 0
		if useStd {
			f.Imports = append(f.Imports, ts.Import{Path: "strings"})
		}
		f.GroupImports = len(f.Imports) > 1 || gen.Uniform(0, 1).Draw(t, "group") == 1
		tag := strings.ReplaceAll(strings.TrimSuffix(names[i], ".tsh"), "/", "_")
		callImported := func(arg ts.Expr) ts.Expr {
			if len(files[i].imports) == 0 {
				return arg
			}
			k := gen.Uniform(0, len(files[i].imports)-1).Draw(t, "callee-file")
			j := files[i].imports[k]
			fn := pubs[j][gen.Uniform(0, len(pubs[j])-1).Draw(t, "callee-fn")]
			return ts.Call{Alias: files[i].aliases[k], Name: fn, Args: []ts.Expr{arg}, Rets: []ts.Type{ts.TInt}}
		}
		x := ts.VarRef{Name: "x", Ty: ts.TInt}
		if i > 0 {
			// a library may start with executable top-level code before its first definition
			if gen.Uniform(0, 2).Draw(t, "leading-top-level") == 0 {
				f.Stmts = append(f.Stmts, ts.Print{Args: []ts.Expr{ts.StrLit{V: tag + "-start"}}})
				leadingTop = true
			}
			// globals, used by top-level code only
			ng := gen.Uniform(0, 2).Draw(t, "nglobals")
			gnames := []string{"Count", "state"}[:ng]
			for gi, g := range gnames {
				f.Stmts = append(f.Stmts, ts.VarDecl{Names: []string{g}, Ty: ts.TInt, Tys: []ts.Type{ts.TInt}, Vals: []ts.Expr{intLit(10*i + gi)}, Form: ts.DeclShort})
				hasGlobal[i] = true
			}
			npriv := gen.Uniform(0, 2).Draw(t, "nprivate")
			privs := []string{"helper", "inner"}[:npriv]
			for pi, p := range privs {
				body := ts.Expr(ts.Bin{Op: "+", Ty: ts.TInt, L: ts.Bin{Op: "*", Ty: ts.TInt, L: x, R: intLit(i + 2)}, R: intLit(pi + 1)})
				if pi == 1 {
					body = ts.Bin{Op: "+", Ty: ts.TInt, L: ts.Call{Name: privs[0], Args: []ts.Expr{x}, Rets: []ts.Type{ts.TInt}}, R: intLit(100)}
				}
				f.Stmts = append(f.Stmts, ts.FuncDef{Name: p, Params: []ts.Param{{Name: "x", Ty: ts.TInt}}, Rets: []ts.Type{ts.TInt}, Body: []ts.Stmt{ts.Return{Vals: []ts.Expr{body}}}})
			}
			npub := gen.Uniform(1, 3).Draw(t, "npublic")
			for pi, p := range []string{"Get", "Calc", "Value"}[:npub] {
				var body ts.Expr = ts.Bin{Op: "+", Ty: ts.TInt, L: x, R: intLit(1000*i + pi)}
				if npriv > 0 && gen.Uniform(0, 1).Draw(t, "use-private") == 1 {
					body = ts.Bin{Op: "+", Ty: ts.TInt, L: ts.Call{Name: privs[gen.Uniform(0, npriv-1).Draw(t, "which-private")], Args: []ts.Expr{x}, Rets: []ts.Type{ts.TInt}}, R: body}
				}
				if gen.Uniform(0, 1).Draw(t, "use-imported") == 1 {
					body = ts.Bin{Op: "+", Ty: ts.TInt, L: callImported(x), R: body}
				}
				fbody := []ts.Stmt{}
				// functions of a library read and write the globals of their own file
				if len(gnames) > 0 && gen.Uniform(0, 1).Draw(t, "use-own-global") == 1 {
					g := gnames[gen.Uniform(0, len(gnames)-1).Draw(t, "which-global")]
					if gen.Uniform(0, 1).Draw(t, "write-own-global") == 1 {
						fbody = append(fbody, ts.OpAssign{Name: g, Ty: ts.TInt, Op: "+", Val: intLit(1)})
					}
					body = ts.Bin{Op: "+", Ty: ts.TInt, L: body, R: ts.VarRef{Name: g, Ty: ts.TInt}}
					usesOwnGlobal = true
				}
				fbody = append(fbody, ts.Return{Vals: []ts.Expr{body}})
				f.Stmts = append(f.Stmts, ts.FuncDef{Name: p, Params: []ts.Param{{Name: "x", Ty: ts.TInt}}, Rets: []ts.Type{ts.TInt}, Body: fbody})
				pubs[i] = append(pubs[i], p)
			}
			// a function nobody calls (must be removable without harm)
			if gen.Uniform(0, 1).Draw(t, "unused") == 1 {
				f.Stmts = append(f.Stmts, ts.FuncDef{Name: "Unused", Params: []ts.Param{{Name: "x", Ty: ts.TInt}}, Rets: []ts.Type{ts.TInt}, Body: []ts.Stmt{ts.Return{Vals: []ts.Expr{callImported(x)}}}})
			}
			ntop := gen.Uniform(0, 3).Draw(t, "ntop")
			topCall := false
			for k := 0; k < ntop; k++ {
				args := []ts.Expr{ts.StrLit{V: tag + "-top"}}
				switch gen.Uniform(0, 2).Draw(t, "top-kind") {
				case 0:
					args = append(args, ts.Call{Name: pubs[i][0], Args: []ts.Expr{intLit(k)}, Rets: []ts.Type{ts.TInt}})
					topCall = true
				case 1:
					if npriv > 0 {
						args = append(args, ts.Call{Name: privs[npriv-1], Args: []ts.Expr{intLit(k)}, Rets: []ts.Type{ts.TInt}})
						topCall = true
					}
				default:
					if len(gnames) > 0 {
						f.Stmts = append(f.Stmts, ts.OpAssign{Name: gnames[0], Ty: ts.TInt, Op: "+", Val: intLit(1)})
					}
				}
				// globals are printed after the call results: a read before a call that writes the variable is unspecified in Go
				for _, g := range gnames {
					args = append(args, ts.VarRef{Name: g, Ty: ts.TInt})
				}
				f.Stmts = append(f.Stmts, ts.Print{Args: args})
			}
			if topCall {
				libsWithTopCalls++
			}
		} else {
			// main: own function with the same name as library functions, calls through every alias
			f.Stmts = append(f.Stmts, ts.FuncDef{Name: "Get", Params: []ts.Param{{Name: "x", Ty: ts.TInt}}, Rets: []ts.Type{ts.TInt}, Body: []ts.Stmt{ts.Return{Vals: []ts.Expr{ts.Bin{Op: "-", Ty: ts.TInt, L: x, R: intLit(1)}}}}})
			f.Stmts = append(f.Stmts, ts.VarDecl{Names: []string{"Count"}, Ty: ts.TInt, Tys: []ts.Type{ts.TInt}, Vals: []ts.Expr{intLit(7)}, Form: ts.DeclShort})
			for k, j := range files[0].imports {
				for _, fn := range pubs[j] {
					if gen.Uniform(0, 2).Draw(t, "main-call") > 0 {
						f.Stmts = append(f.Stmts, ts.Print{Args: []ts.Expr{ts.StrLit{V: files[0].aliases[k] + "." + fn}, ts.Call{Alias: files[0].aliases[k], Name: fn, Args: []ts.Expr{intLit(k + 2)}, Rets: []ts.Type{ts.TInt}}}})
					}
				}
			}
			f.Stmts = append(f.Stmts, ts.Print{Args: []ts.Expr{ts.StrLit{V: "main"}, ts.Call{Name: "Get", Args: []ts.Expr{ts.VarRef{Name: "Count", Ty: ts.TInt}}, Rets: []ts.Type{ts.TInt}}}})
		}
		if useStd {
			// strings.Repeat is interpreted natively by the reference model: print a constant computed here instead
			f.Stmts = append(f.Stmts, ts.Print{Args: []ts.Expr{ts.StrLit{V: tag + "-std"}, ts.Call{Alias: "strings", Name: "Repeat", Args: []ts.Expr{ts.StrLit{V: "ab"}, intLit(2)}, Rets: []ts.Type{ts.TString}}}})
		}
		// nonce steering of the hash prefix
		wantDigit[i] = gen.Uniform(0, 1).Draw(t, "want-digit") == 1
		prog.Files[names[i]] = f
	}
	return c09Graph{prog: prog, names: names, nlibs: nlibs, diamond: diamond, repeated: repeated, libsWithTopCalls: libsWithTopCalls, usesOwnGlobal: usesOwnGlobal, leadingTop: leadingTop, hasGlobal: hasGlobal, wantDigit: wantDigit}
}
