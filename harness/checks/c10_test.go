package checks

import (
	"encoding/json"
	"fmt"
	"path/filepath"
	"regexp"
	"sort"
	"strings"
	"testing"
	"time"

	"pgregory.net/rapid"
	"verif/harness/cmdmodel"
	"verif/harness/gen"
	"verif/harness/lexref"
	"verif/harness/rep"
	"verif/harness/run"
	"verif/harness/ts"
)

// C10 — program behaviour is independent of how identifiers are spelled.
// Metamorphic: a program and its injectively renamed twin either behave alike under bash, or the
// renamed one is rejected by Transpile.

type renameCase struct {
	Kind     string            `json:"kind"` // "rename-pair"
	Property string            `json:"property"`
	Base     string            `json:"base"`
	Renamed  string            `json:"renamed"`
	Mapping  map[string]string `json:"mapping"`
	Backend  string            `json:"backend,omitempty"`     // "" = bash, "batch" = cmd.exe model
	Others   map[string]string `json:"other_files,omitempty"` // the other files (the same for base and renamed)
	File     string            `json:"file,omitempty"`        // the file Base/Renamed are the text of ("" = main.tsh, the entry file)
}

// fileOf is the name of the file a rename case changes; main.tsh is always the entry file.
func (c renameCase) fileOf() string {
	if c.File == "" {
		return "main.tsh"
	}
	return c.File
}

func withMain(file, src string, others map[string]string) map[string]string {
	files := map[string]string{file: src}
	for k, v := range others {
		files[k] = v
	}
	return files
}

type idPool struct {
	class string
	names []string
}

var c10VarPools = []idPool{
	{"helper-var", []string{"_h0", "_h1", "_h2", "_h3", "_h5", "_h8", "_h12"}},
	{"return-register", []string{"_rv0", "_rv1", "_rv2"}},
	{"multi-assign-temp", []string{"_ma0", "_ma1", "_ma2"}},
	{"loop-flag", []string{"_fv0", "_fv1", "_fv2"}},
	{"dynamic-slice", []string{"_dvc", "_dv1", "_dv2", "_dv3"}},
	{"helper-scratch", []string{"_i", "_l", "_c", "_n", "_v", "_ls", "_ll", "_ret"}},
	{"mangled-local", []string{"f1_a", "f1_x", "f2_a", "f1__h0", "f2__h1", "f1_n"}},
	{"batch-owned", []string{"_fa0", "_fa1", "_len", "_sub", "_sh", "_te", "_h", "_e", "_a", "LF"}},
	{"underscore", []string{"_", "__"}},
	{"shell-special-var", []string{"PATH", "IFS", "HOME", "PWD", "RANDOM", "LINENO", "SECONDS", "OPTIND", "REPLY", "BASH", "UID", "PPID", "BASHPID", "OLDPWD", "HOSTNAME", "SHELLOPTS", "FUNCNAME", "PIPESTATUS", "BASH_REMATCH", "ENV", "TMPDIR", "LANG"}},
	{"builtin-name", []string{"echo", "eval", "local", "test", "cat", "exit", "set", "unset", "shift", "printf", "cd", "ls"}},
	{"reserved-word", []string{"do", "done", "fi", "then", "elif", "esac", "in", "time", "function", "select", "until", "while", "coproc"}},
}

var c10FuncPools = []idPool{
	{"helper-routine", []string{"_sah", "_sch", "_ssh", "_ech", "_stlh", "_slg", "_sls"}},
	{"builtin-name", []string{"echo", "eval", "local", "test", "cat", "exit", "set", "unset", "shift", "printf", "cd", "command", "declare", "let", "wait", "source", "alias", "export", "getopts", "hash", "kill", "type", "ulimit", "umask", "trap", "exec"}},
	{"reserved-word", []string{"do", "done", "fi", "then", "elif", "esac", "in", "time", "function", "select", "until", "while", "coproc"}},
	{"helper-var", []string{"_h0", "_rv0", "_dvc", "_fv0"}},
	{"mangled-local", []string{"f1_a", "f2_x"}},
	{"underscore", []string{"_", "__"}},
	{"shell-special-var", []string{"PATH", "IFS", "RANDOM"}},
}

var reAssign = regexp.MustCompile(`(?m)^(?:local )?([A-Za-z_][A-Za-z0-9_]*)=`)
var reFuncDef = regexp.MustCompile(`(?m)^([A-Za-z_][A-Za-z0-9_]*)\(\) \{`)

// compilerNames returns the names the emitted script assigns or defines that are not user spellings.
func compilerNames(script string, user map[string]bool) (vars, funcs []string) {
	seenV, seenF := map[string]bool{}, map[string]bool{}
	for _, m := range reAssign.FindAllStringSubmatch(script, -1) {
		n := m[1]
		if !user[n] && !seenV[n] {
			seenV[n] = true
			vars = append(vars, n)
		}
	}
	for _, m := range reFuncDef.FindAllStringSubmatch(script, -1) {
		n := m[1]
		if !user[n] && !seenF[n] {
			seenF[n] = true
			funcs = append(funcs, n)
		}
	}
	// the emitter may decorate user names (prefix): a compiler-owned name that starts with the same
	// decoration collides with the user spelling that follows it, so that spelling joins the pool too
	prefCount := map[string]int{}
	for _, m := range reAssign.FindAllStringSubmatch(script, -1) {
		for u := range user {
			if m[1] != u && strings.HasSuffix(m[1], u) {
				prefCount[m[1][:len(m[1])-len(u)]]++
			}
		}
	}
	for pre := range prefCount {
		for _, n := range append(append([]string{}, vars...), funcs...) {
			if strings.HasPrefix(n, pre) && len(n) > len(pre) {
				rest := n[len(pre):]
				if lexrefIdent(rest) && !user[rest] {
					if !seenV[rest] {
						seenV[rest] = true
						vars = append(vars, rest)
					}
				}
			}
		}
	}
	sort.Strings(vars)
	sort.Strings(funcs)
	return
}

var reBatTarget = regexp.MustCompile(`(?m)^\s*(?:set (?:/a )?"?|:|call :|goto :?)([A-Za-z_][A-Za-z0-9_]*)`)

// mangledSpellings reads the names a script defines (assignment targets, labels, functions), finds the decoration the
// emitter puts in front of user names (the most frequent text before a user spelling, compared without case) and
// returns what follows that decoration in every such name: the exact spellings under which user identifiers live in
// the script (x_4 for X, f1_n for a local n ...). Giving ANOTHER identifier one of these spellings must not make the
// two meet. Nothing about the scheme is assumed; it is read off the script under test.
func mangledSpellings(script string, batch bool, user map[string]bool) []string {
	targets := []string{}
	if batch {
		for _, m := range reBatTarget.FindAllStringSubmatch(script, -1) {
			targets = append(targets, m[1])
		}
	} else {
		for _, m := range reAssign.FindAllStringSubmatch(script, -1) {
			targets = append(targets, m[1])
		}
		for _, m := range reFuncDef.FindAllStringSubmatch(script, -1) {
			targets = append(targets, m[1])
		}
	}
	votes := map[string]int{}
	for _, tg := range targets {
		low := strings.ToLower(tg)
		for u := range user {
			lu := strings.ToLower(u)
			for i := 1; i+len(lu) <= len(low); i++ {
				if strings.HasPrefix(low[i:], lu) {
					votes[tg[:i]]++
					break
				}
			}
		}
	}
	best, bestN := "", 0
	for pre, n := range votes {
		if n > bestN || (n == bestN && (len(pre) > len(best) || (len(pre) == len(best) && pre < best))) {
			best, bestN = pre, n
		}
	}
	if best == "" {
		return nil
	}
	seen := map[string]bool{}
	out := []string{}
	for _, tg := range targets {
		if strings.HasPrefix(tg, best) && len(tg) > len(best) {
			rest := tg[len(best):]
			if _, kw := lexref.Keywords[rest]; !kw && lexrefIdent(rest) && !user[rest] && !seen[rest] {
				seen[rest] = true
				out = append(out, rest)
			}
		}
	}
	sort.Strings(out)
	return out
}

var reIdent = regexp.MustCompile(`^[A-Za-z_][A-Za-z0-9_]*$`)

func lexrefIdent(s string) bool { return reIdent.MatchString(s) }

type bashObs struct {
	verdict     string
	stdout      string
	status      int
	stderrEmpty bool
	stderr      string
	timedOut    bool
	script      string
}

func observeBash(file, src string, others map[string]string) bashObs {
	tr := run.TranspileSrc(withMain(file, src, others), "main.tsh", run.Bash)
	if !tr.Accepted() {
		return bashObs{verdict: tr.Verdict(), stderr: tr.ErrText()}
	}
	res := run.RunBash(tr.Script, run.ExecOpts{Timeout: 8 * time.Second})
	if res.TimedOut {
		// a time-out only counts when the machine is not stalled: wait until it is responsive, then decide with a long limit
		run.WaitResponsive()
		res = run.RunBash(tr.Script, run.ExecOpts{Timeout: 60 * time.Second})
	}
	return bashObs{verdict: "accept", stdout: res.Stdout, status: res.Status, stderrEmpty: res.Stderr == "", stderr: res.Stderr, timedOut: res.TimedOut, script: tr.Script}
}

// observeBatch runs the Batch output under the cmd.exe model; inconclusive runs are reported as such.
func observeBatch(file, src string, others map[string]string) (verdict string, stdout string, status int, inconclusive string) {
	tr := run.TranspileSrc(withMain(file, src, others), "main.tsh", run.Batch)
	if !tr.Accepted() {
		return tr.Verdict(), "", 0, ""
	}
	res := cmdmodel.Run(tr.Script, 400000)
	return "accept", res.Stdout, res.Status, res.Inconclusive
}

// checkRenamePairBatch: same metamorphic relation for the Batch target under the cmd.exe model.
func checkRenamePairBatch(c renameCase) (string, string) {
	bv, bout, bst, binc := observeBatch(c.fileOf(), c.Base, c.Others)
	if bv != "accept" || binc != "" {
		return "", ""
	}
	nv, nout, nst, ninc := observeBatch(c.fileOf(), c.Renamed, c.Others)
	if nv == "reject" {
		return "", ""
	}
	if nv != "accept" {
		return "crash", "transpiling the renamed program for Batch: " + nv
	}
	if ninc != "" {
		if strings.HasPrefix(ninc, "step-limit") {
			return "hang", "the renamed program does not terminate under the cmd.exe model"
		}
		if strings.HasPrefix(ninc, "syntax") {
			return "syntax", "the renamed Batch script is malformed under the cmd.exe model: " + ninc
		}
		return "", "" // outside the model: no verdict
	}
	if nout != bout {
		return "stdout", fmt.Sprintf("stdout under the cmd.exe model differs\n--- base\n%s--- renamed\n%s", clip(bout), clip(nout))
	}
	if nst != bst {
		return "status", fmt.Sprintf("exit status %d, base program %d (cmd.exe model)", nst, bst)
	}
	return "", ""
}

func checkRenamePair(c renameCase) (string, string) {
	if c.Backend == "batch" {
		return checkRenamePairBatch(c)
	}
	b := observeBash(c.fileOf(), c.Base, c.Others)
	if b.verdict != "accept" {
		return "", "" // the base program is not this property's business
	}
	n := observeBash(c.fileOf(), c.Renamed, c.Others)
	switch n.verdict {
	case "reject":
		return "", ""
	case "panic", "timeout":
		return "crash", "transpiling the renamed program: " + n.stderr
	}
	switch {
	case n.timedOut && !b.timedOut:
		return "hang", "the renamed program does not terminate"
	case n.stdout != b.stdout:
		return "stdout", fmt.Sprintf("stdout differs\n--- base\n%s--- renamed\n%s--- stderr of renamed\n%s", clip(b.stdout), clip(n.stdout), clip(n.stderr))
	case n.status != b.status:
		return "status", fmt.Sprintf("exit status %d, base program %d (stderr %s)", n.status, b.status, clip(n.stderr))
	case n.stderrEmpty != b.stderrEmpty:
		return "stderr", "renamed program writes to stderr: " + clip(n.stderr)
	}
	return "", ""
}

func init() {
	replayFuncs["rename-pair"] = func(raw json.RawMessage) (bool, string) {
		var c renameCase
		json.Unmarshal(raw, &c)
		k, msg := checkRenamePair(c)
		return k == "", k + ": " + msg
	}
}

func TestC10(t *testing.T) {
	r, e := start(t, "C10",
		"a generated program (scalars, functions, slices, strings, every loop form) and an injective renaming of its variables, parameters and functions into pools: compiler-shaped names (_h<n>, _rv<n>, _ma<n>, _fv<n>, _dv<n>, _dvc, helper scratch variables, mangled locals f<k>_x, Batch-owned names, helper routines; the pools are extended by every assignment target and function name found in the emitted script of the base program that is not a user spelling), shell-owned names (builtins, special/environment variables, reserved words), and random legal identifiers; functions and variables are renamed independently; exhaustively every case pattern of seven words of 2-10 letters as variable and as function name (Batch names read off the script must stay different after case folding); second order: one more identifier takes the exact spelling under which another identifier lives in the emitted script of the renamed program (decoration read off that script, either target). Oracle (metamorphic): the renamed program is rejected by Transpile or shows the base program's stdout, exit status and stderr-emptiness under bash, and (for programs inside the 32-bit domain) the same relation for the Batch script under the cmd.exe model, where names differing only in letter case are part of the pools. Non-trivial = at least one identifier mapped into a compiler-shaped or shell-owned pool; distinct by renamed source.",
		[]string{"the Batch half runs under the cmd.exe model of C05 (its runs outside the model are inconclusive, never verdicts)", "a variable and a function never receive the same spelling (not asserted by the property)", "the base program itself is validated by the reference interpreter (invalid or non-terminating bases are discarded)"})
	defer r.Flush()
	cfg := gen.Cfg{MaxStmts: 18, MaxDepth: 3, ExprDepth: 3, Funcs: true, MaxFuncs: 3, Slices: true, StrOps: true, LoopBudget: 10, DumpGlobal: true, CmdNeutral: true, ErrSpell: true, BareExpr: true}
	if e.Thorough() {
		cfg.MaxStmts, cfg.MaxFuncs, cfg.LoopBudget = 35, 5, 20
	}
	// names that differ only in letter case, exhaustively: every case pattern of a word (2^len spellings) as a variable and as
	// a function of the Batch target. cmd.exe folds the case of variables and labels, so the emitter must give all these
	// spellings names that stay different after folding; the names are read off the script, whatever the scheme is. A pair
	// that meets is then run under the cmd.exe model against the same program with neutral names.
	{
		words := []string{"ab", "xyz", "abcde", "abcdefgh", "abcdefghij", "k_lmnopqrs", "counterval"}
		for wi, word := range words {
			if !e.Mine(wi*3 + 1) {
				continue
			}
			nl := 0
			for _, ch := range word {
				if ch >= 'a' && ch <= 'z' {
					nl++
				}
			}
			for _, role := range []string{"variable", "function"} {
				folded := map[string]string{}
				var pairA, pairB string
				for mask := 0; mask < 1<<nl && pairA == ""; mask++ {
					name, k := "", 0
					for _, ch := range word {
						if ch >= 'a' && ch <= 'z' {
							if mask&(1<<k) != 0 {
								ch = ch - 'a' + 'A'
							}
							k++
						}
						name += string(ch)
					}
					src := name + " := 1\nprint(" + name + ")\n"
					if role == "function" {
						src = "func " + name + "() int {\n\treturn 1\n}\nprint(" + name + "())\n"
					}
					tr := run.TranspileOne(src, run.Batch)
					if !tr.Accepted() {
						continue
					}
					for _, m := range reBatTarget.FindAllStringSubmatch(tr.Script, -1) {
						if !strings.Contains(strings.ToLower(m[1]), strings.ToLower(word)) {
							continue
						}
						key := strings.ToLower(m[1])
						if prev, ok := folded[key]; ok && prev != name {
							pairA, pairB = prev, name
							break
						}
						folded[key] = name
					}
				}
				r.Eval()
				r.Class("case-patterns:" + role)
				r.NonTrivial("case-patterns:"+word+"/"+role, nil)
				r.SetExtra("n_case_patterns_"+role, 1<<nl)
				if pairA == "" {
					continue
				}
				base := "va := 1\nvb := 2\nprint(va, vb)\nva = 5\nprint(va, vb)\n"
				renamed := strings.NewReplacer("va", pairA, "vb", pairB).Replace(base)
				mapping := map[string]string{"va/variable": pairA, "vb/variable": pairB}
				if role == "function" {
					base = "func va() int {\n\treturn 1\n}\nfunc vb() int {\n\treturn 2\n}\nprint(va(), vb())\n"
					renamed = strings.NewReplacer("va", pairA, "vb", pairB).Replace(base)
					mapping = map[string]string{"va/function": pairA, "vb/function": pairB}
				}
				c := renameCase{Kind: "rename-pair", Property: "C10", Base: base, Renamed: renamed, Mapping: mapping, Backend: "batch"}
				if kind, msg := checkRenamePair(c); kind != "" {
					r.Violate(rep.Sig{"kind": kind, "identifier": "case-pattern-pair/" + role, "backend": "batch"}, pairA+" and "+pairB+" get names that cmd.exe cannot tell apart: "+msg, c)
				}
			}
		}
	}

	checkRapid(t, r, func(t *rapid.T) {
		if gen.Uniform(0, 4).Draw(t, "family") == 0 && c10MultiFile(t, r) {
			return
		}
		stmts, _ := gen.Stmts(t, cfg)
		p := ts.Single(stmts)
		ref, err := refRun(p, 2500, nil, nil)
		if err != nil {
			r.Discard("invalid-base")
			t.Skip("invalid base program")
		}
		batchOK := ref.MaxAbs <= 2147483647 && !ref.Overflow // the Batch half only for programs inside the 32-bit domain
		// identifiers by role
		vars, funcs := map[string]bool{}, map[string]bool{}
		(&ts.Rewriter{Name: func(n, role string) string {
			if role == "func" {
				funcs[n] = true
			} else if role != "alias" {
				vars[n] = true
			}
			return n
		}}).Stmts(stmts)
		if len(vars)+len(funcs) == 0 {
			t.Skip("no identifiers")
		}
		base := ts.StmtsString(stmts)
		user := map[string]bool{}
		for n := range vars {
			user[n] = true
		}
		for n := range funcs {
			user[n] = true
		}
		// pools recomputed from the emitted script of the base program
		varPools := append([]idPool{}, c10VarPools...)
		funcPools := append([]idPool{}, c10FuncPools...)
		if tr := run.TranspileOne(base, run.Bash); tr.Accepted() {
			cv, cf := compilerNames(tr.Script, user)
			if len(cv) > 0 {
				varPools = append(varPools, idPool{"emitted-variable", cv}, idPool{"emitted-variable", cv})
				funcPools = append(funcPools, idPool{"emitted-variable", cv})
			}
			if len(cf) > 0 {
				funcPools = append(funcPools, idPool{"emitted-function", cf}, idPool{"emitted-function", cf})
				varPools = append(varPools, idPool{"emitted-function", cf})
			}
		} else {
			r.Discard("base-rejected")
			t.Skip("base rejected (C01-C03 report that)")
		}
		used := map[string]bool{}
		for n := range user {
			used[n] = true
		}
		mapping := map[string]string{}
		classes := map[string]bool{}
		names := func(m map[string]bool) []string {
			out := []string{}
			for n := range m {
				out = append(out, n)
			}
			sort.Strings(out)
			return out
		}
		pickNew := func(pools []idPool, role string) (string, string) {
			for tries := 0; tries < 12; tries++ {
				if gen.Uniform(0, 4).Draw(t, "random-ident") == 0 {
					n := rapid.StringMatching(`[a-zA-Z_][a-zA-Z0-9_]{0,5}`).Draw(t, "ident")
					if _, kw := lexref.Keywords[n]; !kw && !used[n] {
						return n, "random"
					}
					continue
				}
				pool := pools[gen.Uniform(0, len(pools)-1).Draw(t, "pool")]
				n := pool.names[gen.Uniform(0, len(pool.names)-1).Draw(t, "pool-name")]
				if _, kw := lexref.Keywords[n]; !kw && !used[n] {
					return n, pool.class
				}
			}
			return "", ""
		}
		// case variants of the program's own identifiers (cmd.exe folds case)
		cv := []string{}
		for n := range user {
			for _, v := range []string{strings.ToUpper(n), strings.ToLower(n), strings.ToUpper(n[:1]) + n[1:]} {
				if v != n && !user[v] {
					cv = append(cv, v)
				}
			}
		}
		sort.Strings(cv)
		if len(cv) > 0 {
			varPools = append(varPools, idPool{"case-variant", cv}, idPool{"case-variant", cv})
			funcPools = append(funcPools, idPool{"case-variant", cv})
		}
		nren := gen.Uniform(1, 3).Draw(t, "nrenamed")
		all := []struct{ n, role string }{}
		for _, n := range names(vars) {
			all = append(all, struct{ n, role string }{n, "variable"})
		}
		for _, n := range names(funcs) {
			all = append(all, struct{ n, role string }{n, "function"})
		}
		roleOf := map[string]string{}
		for k := 0; k < nren && len(all) > 0; k++ {
			i := gen.Uniform(0, len(all)-1).Draw(t, "which-ident")
			id := all[i]
			all = append(all[:i], all[i+1:]...)
			pools := varPools
			if id.role == "function" {
				pools = funcPools
			}
			nn, class := pickNew(pools, id.role)
			if nn == "" {
				continue
			}
			used[nn] = true
			mapping[id.n+"/"+id.role] = nn
			roleOf[class] = id.role
			if class != "random" {
				classes[class+"/"+id.role] = true
			}
			r.Class("rename:" + class + "/" + id.role)
		}
		if len(mapping) == 0 {
			t.Skip("nothing renamed")
		}
		renamed := ts.StmtsString((&ts.Rewriter{Name: func(n, role string) string {
			key := n + "/variable"
			if role == "func" {
				key = n + "/function"
			}
			if nn, ok := mapping[key]; ok {
				return nn
			}
			return n
		}}).Stmts(stmts))
		c := renameCase{Kind: "rename-pair", Property: "C10", Base: base, Renamed: renamed, Mapping: mapping}
		r.Eval()
		if len(classes) > 0 {
			r.NonTrivial(renamed, map[string]any{"mapping": mapping, "renamed": renamed})
		}
		kind, msg := checkRenamePair(c)
		backend := "bash"
		if kind == "" && batchOK {
			cb := c
			cb.Backend = "batch"
			if kind, msg = checkRenamePair(cb); kind != "" {
				backend = "batch"
				c = cb
			}
		}
		hasUpper := false
		for _, nn := range mapping {
			if strings.ToLower(nn) != nn {
				hasUpper = true
			}
		}
		if kind == "" && len(all) > 0 && (gen.Uniform(0, 1).Draw(t, "second-order") == 0 || (hasUpper && batchOK)) {
			// exhaustively every case pattern of seven words of 2-10 letters as variable and as function name (Batch names read off the script must stay different after case folding); second order: one more identifier takes the exact spelling under which an (already renamed) identifier lives
			// in the emitted script (read off that script), for either target; with an upper-case name in play mostly the
			// Batch script is read (cmd.exe folds case, so its emitter has to encode the case)
			useBatch := batchOK && gen.Uniform(0, 3).Draw(t, "second-order-batch") != 0
			tg := run.Bash
			if useBatch {
				tg = run.Batch
			}
			if tr2 := run.TranspileOne(renamed, tg); tr2.Accepted() {
				now := map[string]bool{}
				for n := range user {
					now[n] = true
				}
				for _, nn := range mapping {
					now[nn] = true
				}
				pool2 := []string{}
				for _, sp := range mangledSpellings(tr2.Script, useBatch, now) {
					variants := []string{sp}
					if useBatch {
						// cmd.exe folds case: the spelling in another case is the same name there
						variants = append(variants, strings.ToLower(sp), strings.ToUpper(sp))
					}
					for _, v := range variants {
						if _, kw := lexref.Keywords[v]; !kw && !used[v] && !now[v] {
							pool2 = append(pool2, v)
							used[v] = true
						}
					}
				}
				for _, v := range pool2 {
					delete(used, v)
				}
				// spellings that belong to the identifiers renamed in the first step are preferred
				pref := []string{}
				for _, sp := range pool2 {
					for _, nn := range mapping {
						if strings.HasPrefix(strings.ToLower(sp), strings.ToLower(nn)) {
							pref = append(pref, sp)
							break
						}
					}
				}
				if len(pref) > 0 && gen.Uniform(0, 3).Draw(t, "second-preferred") != 0 {
					pool2 = pref
				}
				if len(pool2) > 0 {
					id := all[gen.Uniform(0, len(all)-1).Draw(t, "second-ident")]
					nn := pool2[gen.Uniform(0, len(pool2)-1).Draw(t, "second-name")]
					mapping2 := map[string]string{}
					for k, v := range mapping {
						mapping2[k] = v
					}
					mapping2[id.n+"/"+id.role] = nn
					renamed2 := ts.StmtsString((&ts.Rewriter{Name: func(n, role string) string {
						key := n + "/variable"
						if role == "func" {
							key = n + "/function"
						}
						if v, ok := mapping2[key]; ok {
							return v
						}
						return n
					}}).Stmts(stmts))
					r.Eval()
					r.Class("rename:mangled-spelling-of-another/" + id.role)
					r.NonTrivial(renamed2, map[string]any{"mapping": mapping2, "renamed": renamed2})
					c2 := renameCase{Kind: "rename-pair", Property: "C10", Base: base, Renamed: renamed2, Mapping: mapping2}
					if kind, msg = checkRenamePair(c2); kind == "" && batchOK {
						c2.Backend = "batch"
						if kind, msg = checkRenamePair(c2); kind != "" {
							backend = "batch"
						}
					}
					if kind != "" {
						classes["mangled-spelling-of-another/"+id.role] = true
						mapping, renamed, c = mapping2, renamed2, c2
					}
				}
			}
		}
		if kind == "" {
			return
		}
		// signature: the identifier classes involved (a shrunk case usually has one)
		cl := []string{}
		for k := range classes {
			cl = append(cl, k)
		}
		sort.Strings(cl)
		if len(cl) == 0 {
			cl = []string{"random"}
		}
		ms, _ := json.Marshal(mapping)
		r.FailCase(t, rep.Sig{"kind": kind, "identifier": strings.Join(cl, "+"), "backend": backend}, string(ms)+"\n"+msg+"\n--- renamed source\n"+renamed, c)
	})
}

// c10MultiFile: the renaming relation on a program with imported files. An identifier of the MAIN file takes the exact
// spelling under which a name of an imported file (or any other name) lives in the emitted script - e.g. <file prefix>_<name>
// - read off the script of the base program. The renamed program must be rejected or behave like the base program.
func c10MultiFile(t *rapid.T, r *rep.R) bool {
	sp, ok := c09BuildSplit(t)
	if !ok {
		return false
	}
	// every imported file also gets top-level code whose names are NOT globals of the file: a block-local variable, the
	// variable of a for header and the variables of a range header (they are stored without the file's prefix)
	fileNames := run.SortedKeys(sp.prog.Files)
	for _, fn := range fileNames {
		if fn == "main.tsh" {
			continue
		}
		tag := ts.StrLit{V: strings.TrimSuffix(filepath.Base(fn), ".tsh")}
		lt, lk, li, lv := ts.VarRef{Name: "lt", Ty: ts.TInt}, ts.VarRef{Name: "lk", Ty: ts.TInt}, ts.VarRef{Name: "li", Ty: ts.TInt}, ts.VarRef{Name: "lv", Ty: ts.TString}
		fl := sp.prog.Files[fn]
		fl.Stmts = append(fl.Stmts,
			ts.If{Cond: ts.Cmp{Op: "==", L: ts.IntLit{V: 1}, R: ts.IntLit{V: 1}}, Then: []ts.Stmt{
				ts.VarDecl{Names: []string{"lt"}, Ty: ts.TInt, Tys: []ts.Type{ts.TInt}, Vals: []ts.Expr{ts.IntLit{V: 40}}, Form: ts.DeclShort},
				ts.IncDec{Name: "lt", Inc: true}, ts.Print{Args: []ts.Expr{tag, lt}}}},
			ts.For{Kind: ts.ForClause, Init: ts.VarDecl{Names: []string{"lk"}, Ty: ts.TInt, Tys: []ts.Type{ts.TInt}, Vals: []ts.Expr{ts.IntLit{V: 50}}, Form: ts.DeclShort},
				Cond: ts.Cmp{Op: "<", L: lk, R: ts.IntLit{V: 52}}, Post: ts.IncDec{Name: "lk", Inc: true}, Body: []ts.Stmt{ts.Print{Args: []ts.Expr{tag, lk}}}},
			ts.Range{I: "li", V: "lv", X: ts.StrLit{V: "ab"}, Body: []ts.Stmt{ts.Print{Args: []ts.Expr{tag, li, lv}}}})
	}
	srcs := ts.Sources(sp.prog)
	// the file whose identifier is renamed: the main file or an imported one
	target := fileNames[gen.Uniform(0, len(fileNames)-1).Draw(t, "mf-file")]
	others := map[string]string{}
	for k, v := range srcs {
		if k != target {
			others[k] = v
		}
	}
	vars, funcs := map[string]bool{}, map[string]bool{}
	user := map[string]bool{}
	elsewhere := map[string]bool{} // identifiers of the OTHER files
	for _, fn := range fileNames {
		(&ts.Rewriter{Name: func(n, role string) string {
			if role == "alias" {
				return n
			}
			user[n] = true
			if fn != target {
				elsewhere[n] = true
			} else if role == "func" {
				funcs[n] = true
			} else {
				vars[n] = true
			}
			return n
		}}).Stmts(sp.prog.Files[fn].Stmts)
	}
	for _, n := range sp.movedPublic {
		user[n] = true
		delete(funcs, n) // names of imported functions are not renamed here
	}
	for n := range funcs {
		if n[0] >= 'A' && n[0] <= 'Z' {
			delete(funcs, n) // a public function of an imported file is used by other files
		}
	}
	tr := run.TranspileSrc(srcs, "main.tsh", run.Bash)
	if !tr.Accepted() {
		return false // C09 reports that
	}
	pool := mangledSpellings(tr.Script, false, user)
	cands := []string{}
	for n := range vars {
		cands = append(cands, n+"/variable")
	}
	for n := range funcs {
		cands = append(cands, n+"/function")
	}
	sort.Strings(cands)
	if len(pool) == 0 || len(cands) == 0 {
		return false
	}
	// half of the time the new spelling is one under which a name of ANOTHER file lives in the script (it contains that name)
	foreign := []string{}
	for _, spell := range pool {
		for n := range elsewhere {
			if len(n) >= 2 && !vars[n] && !funcs[n] && strings.Contains(strings.ToLower(spell), strings.ToLower(n)) {
				foreign = append(foreign, spell)
				break
			}
		}
	}
	key := cands[gen.Uniform(0, len(cands)-1).Draw(t, "mf-ident")]
	nn := pool[gen.Uniform(0, len(pool)-1).Draw(t, "mf-name")]
	if len(foreign) > 0 && gen.Uniform(0, 1).Draw(t, "mf-foreign") == 1 {
		nn = foreign[gen.Uniform(0, len(foreign)-1).Draw(t, "mf-foreign-name")]
		r.Class("rename:multi-file-spelling-of-another-file")
	}
	mapping := map[string]string{key: nn}
	renamedStmts := (&ts.Rewriter{Name: func(n, role string) string {
		k := n + "/variable"
		if role == "func" {
			k = n + "/function"
		}
		if role == "alias" {
			return n
		}
		if v, ok := mapping[k]; ok {
			return v
		}
		return n
	}}).Stmts(sp.prog.Files[target].Stmts)
	tf := *sp.prog.Files[target]
	tf.Stmts = renamedStmts
	renamed := ts.FileString(&tf)
	r.Class("rename:multi-file-in:" + map[bool]string{true: "main-file", false: "imported-file"}[target == "main.tsh"])
	c := renameCase{Kind: "rename-pair", Property: "C10", Base: srcs[target], Renamed: renamed, Mapping: mapping, Others: others, File: target}
	r.Eval()
	r.Class("rename:multi-file-mangled-spelling/" + strings.SplitN(key, "/", 2)[1])
	r.NonTrivial(renamed+nn, map[string]any{"mapping": mapping, "renamed": renamed, "other_files": others})
	kind, msg := checkRenamePair(c)
	backend := "bash"
	if kind == "" && sp.ref.MaxAbs <= 2147483647 && !sp.ref.Overflow {
		cb := c
		cb.Backend = "batch"
		if kind, msg = checkRenamePair(cb); kind != "" {
			backend, c = "batch", cb
		}
	}
	if kind != "" {
		ms, _ := json.Marshal(mapping)
		r.FailCase(t, rep.Sig{"kind": kind, "identifier": "multi-file-mangled-spelling", "backend": backend}, string(ms)+"\n"+msg+"\n--- renamed main\n"+renamed+"--- imported files\n"+mainSource(others, ""), c)
	}
	return true
}
