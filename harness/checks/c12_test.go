package checks

import (
	"encoding/json"
	"fmt"
	"sort"
	"strings"
	"testing"

	"github.com/monstermichl/typeshell/lexer"
	"pgregory.net/rapid"
	"verif/harness/gen"
	"verif/harness/lexref"
	"verif/harness/rep"
	"verif/harness/run"
	"verif/harness/ts"
)

// C12 — program meaning is independent of layout.
// Metamorphic: Transpile(original) vs Transpile(token-preserving re-layout): same verdict and,
// when accepted, byte-identical scripts, for both targets.

type layoutCase struct {
	Kind     string            `json:"kind"` // "layout-pair"
	Property string            `json:"property"`
	Others   map[string]string `json:"other_files,omitempty"`
	Original string            `json:"original"`
	Relaid   string            `json:"relaid"`
	Edits    []string          `json:"edits"`
}

// adjacent: may b follow a without any separator? (Go's rule: an integer literal carries no sign,
// so a-1 is a legal re-layout of a - 1.)
func c12Adjacent(prev lexer.TokenType, a, b lexref.Tok) bool {
	pre := ""
	switch {
	case lexref.EndsOperand(prev):
		pre = "x "
	case prev != 0:
		pre = "( "
	}
	toks, _, err := lexref.Lex(pre + a.Text + b.Text)
	if err != nil {
		return false
	}
	if pre != "" {
		toks = toks[1:]
	}
	if len(toks) != 2 || toks[0].Type != a.Type || toks[0].Text != a.Text || toks[1].Type != b.Type || toks[1].Text != b.Text {
		return false
	}
	if a.Type == lexer.NUMBER_LITERAL && b.Type == lexer.DOT || a.Type == lexer.DOT && b.Type == lexer.NUMBER_LITERAL {
		return false
	}
	return true
}

func c12Comment(t *rapid.T) string {
	return []string{"c", " note ", "x := 1", "TODO: }", "\"", "'", "**", "if {", "é"}[gen.Uniform(0, 8).Draw(t, "ctext")]
}

// relayout renders toks with a random layout. Returns the text and the kinds of edits used.
func relayout(t *rapid.T, toks []lexref.Tok) (string, []string) {
	kinds := map[string]bool{}
	var sb strings.Builder
	crlf := gen.Uniform(0, 3).Draw(t, "line-end") // 0,1 LF; 2 CRLF; 3 mixed
	nl := func() {
		if crlf == 2 || (crlf == 3 && gen.Uniform(0, 1).Draw(t, "crlf1") == 1) {
			sb.WriteString("\r\n")
			kinds["crlf"] = true
		} else {
			sb.WriteByte('\n')
		}
	}
	extraLines := func(where string) {
		n := []int{0, 0, 0, 1, 1, 2, 3}[gen.Uniform(0, 6).Draw(t, "extra-lines")]
		for i := 0; i < n; i++ {
			switch gen.Uniform(0, 3).Draw(t, "extra-kind") {
			case 0:
				kinds["blank-line"+where] = true
			case 1:
				sb.WriteString([]string{" ", "\t", "  \t"}[gen.Uniform(0, 2).Draw(t, "ws-line")])
				kinds["blank-line"+where] = true
			case 2:
				sb.WriteString(strings.Repeat("\t", gen.Uniform(0, 2).Draw(t, "cind")) + "//" + c12Comment(t))
				kinds["comment-line"+where] = true
			default:
				sb.WriteString("/* " + strings.ReplaceAll(c12Comment(t), "*/", "") + " */")
				kinds["comment-line"+where] = true
			}
			nl()
		}
	}
	if gen.Uniform(0, 3).Draw(t, "leading") == 0 {
		extraLines("-at-start")
	}
	lineStart := true
	inImportGroup := false
	// presence or absence of a final newline is layout: drop the trailing line breaks of the file, or add one
	switch gen.Uniform(0, 3).Draw(t, "final-newline") {
	case 0:
		n := len(toks)
		for n > 0 && toks[n-1].Type == lexer.NEWLINE {
			n--
		}
		if n < len(toks) && n > 0 {
			toks = toks[:n]
			kinds["final-newline-dropped"] = true
		}
	case 1:
		if len(toks) > 0 && toks[len(toks)-1].Type != lexer.NEWLINE {
			toks = append(append([]lexref.Tok{}, toks...), lexref.Tok{Type: lexer.NEWLINE, Text: "\n", Value: "\n"})
			kinds["final-newline-added"] = true
		}
	}
	for i, tk := range toks {
		if tk.Type == lexer.NEWLINE {
			// trailing blanks / line comment before the line break
			if gen.Uniform(0, 4).Draw(t, "trail") == 0 {
				sb.WriteString([]string{" ", "\t", "   "}[gen.Uniform(0, 2).Draw(t, "trail-ws")])
				kinds["trailing-blank"] = true
			}
			if gen.Uniform(0, 5).Draw(t, "eol-comment") == 0 {
				if i > 0 && strings.HasSuffix(toks[i-1].Text, "/") {
					sb.WriteByte(' ')
				}
				sb.WriteString("//" + c12Comment(t))
				kinds["line-comment"] = true
			}
			nl()
			where := ""
			if inImportGroup {
				where = "-in-import-group"
			} else if i > 0 && toks[i-1].Type == lexer.OPENING_CURLY_BRACKET {
				where = "-after-brace"
			} else if i > 0 && toks[i-1].Type == lexer.COLON {
				where = "-after-case"
			}
			extraLines(where)
			lineStart = true
			continue
		}
		if i > 0 && toks[i-1].Type == lexer.IMPORT && tk.Type == lexer.OPENING_ROUND_BRACKET {
			inImportGroup = true
		}
		if inImportGroup && tk.Type == lexer.CLOSING_ROUND_BRACKET {
			inImportGroup = false
		}
		if lineStart {
			ind := []string{"", "\t", "\t\t", "  ", "    ", " \t"}[gen.Uniform(0, 5).Draw(t, "indent")]
			sb.WriteString(ind)
			if ind != "" {
				kinds["indent"] = true
			}
			lineStart = false
		} else {
			// separator between two tokens of one line
			var prev lexer.TokenType
			if i >= 2 && toks[i-2].Type != lexer.NEWLINE {
				prev = toks[i-2].Type
			}
			a := toks[i-1]
			choice := gen.Uniform(0, 9).Draw(t, "gap")
			switch {
			case choice <= 2 && c12Adjacent(prev, a, tk):
				kinds["no-blank"] = true
				if a.Text == "-" && tk.Type == lexer.NUMBER_LITERAL && lexref.EndsOperand(prev) {
					kinds["minus-digit-after-operand"] = true
				}
			case choice <= 5:
				sb.WriteByte(' ')
			case choice == 6:
				sb.WriteString("  ")
				kinds["multi-blank"] = true
			case choice == 7:
				sb.WriteByte('\t')
				kinds["tab"] = true
			default:
				if strings.HasSuffix(a.Text, "/") {
					sb.WriteByte(' ')
				}
				sb.WriteString("/*" + strings.ReplaceAll(c12Comment(t), "*/", "") + "*/")
				if !c12Adjacent(0, lexref.Tok{Type: lexer.IDENTIFIER, Text: "q"}, tk) || gen.Uniform(0, 1).Draw(t, "sp-after-comment") == 0 {
					sb.WriteByte(' ')
				}
				kinds["block-comment"] = true
			}
		}
		sb.WriteString(tk.Text)
	}
	// the original's last token decides whether a final newline token exists; optionally drop/add trailing text
	if len(toks) > 0 && toks[len(toks)-1].Type != lexer.NEWLINE {
		kinds["no-final-newline"] = true
		// the file ends without a line break: trailing blanks, a line comment or a block comment may still follow the last token
		switch gen.Uniform(0, 5).Draw(t, "after-last-token") {
		case 0:
			sb.WriteString([]string{" ", "\t", "  \t"}[gen.Uniform(0, 2).Draw(t, "eof-ws")])
			kinds["blanks-at-end-of-file"] = true
		case 1:
			sb.WriteString([]string{" // done", "// x", "\t//", " // a b c"}[gen.Uniform(0, 3).Draw(t, "eof-comment")])
			kinds["line-comment-at-end-of-file"] = true
		case 2:
			sb.WriteString([]string{" /* done */", "/**/", " /* a\nb */"}[gen.Uniform(0, 2).Draw(t, "eof-block")])
			kinds["block-comment-at-end-of-file"] = true
		}
	} else if len(toks) > 0 && gen.Uniform(0, 5).Draw(t, "comment-only-last-line") == 0 {
		// a comment-only last line that is not terminated by a line break
		sb.WriteString([]string{"// end of file", "\t// e", "/* end */", "//"}[gen.Uniform(0, 3).Draw(t, "last-line-comment")])
		kinds["unterminated-comment-line-at-end-of-file"] = true
	}
	ks := []string{}
	for k := range kinds {
		ks = append(ks, k)
	}
	sort.Strings(ks)
	return sb.String(), ks
}

// checkLayoutPair returns "" if original and re-laid-out text are treated alike.
func checkLayoutPair(c layoutCase) (string, string) {
	for _, tg := range []run.Target{run.Bash, run.Batch} {
		f1 := map[string]string{"main.tsh": c.Original}
		f2 := map[string]string{"main.tsh": c.Relaid}
		for k, v := range c.Others {
			f1[k], f2[k] = v, v
		}
		a := run.TranspileSrc(f1, "main.tsh", tg)
		b := run.TranspileSrc(f2, "main.tsh", tg)
		if a.Panic != "" || b.Panic != "" || a.TimedOut || b.TimedOut {
			return "crash", fmt.Sprintf("%s: original: %s / relaid: %s", tg, a.ErrText(), b.ErrText())
		}
		switch {
		case a.Accepted() && !b.Accepted():
			return "accept->reject", fmt.Sprintf("%s: the re-laid-out text is rejected: %s", tg, b.ErrText())
		case !a.Accepted() && b.Accepted():
			return "reject->accept", fmt.Sprintf("%s: the original is rejected (%s) but the re-laid-out text is accepted", tg, a.ErrText())
		case a.Accepted() && a.Script != b.Script:
			return "script-differs", fmt.Sprintf("%s: scripts differ", tg)
		}
	}
	return "", ""
}

func init() {
	replayFuncs["layout-pair"] = func(raw json.RawMessage) (bool, string) {
		var c layoutCase
		json.Unmarshal(raw, &c)
		k, msg := checkLayoutPair(c)
		return k == "", k + ": " + msg
	}
}

const c12Helper = "func Twice(a int) int {\n\treturn a * 2\n}\nfunc Name() string {\n\treturn \"h\"\n}\n"

var c12ImportBases = []string{
	"import (\n\thp \"helper.tsh\"\n\t\"strings\"\n)\nprint(hp.Twice(2), strings.Contains(\"ab\", \"b\"))\n",
	"import (\n\thp \"helper.tsh\"\n)\nx := hp.Twice(3)\nprint(x)\n",
	"import hp \"helper.tsh\"\nprint(hp.Name())\n",
	"import (\n\t\"strings\"\n\thp \"helper.tsh\"\n\th2 \"helper.tsh\"\n)\nprint(strings.Repeat(hp.Name(), h2.Twice(1)))\n",
	// files whose LAST statement is an import (nothing but the end of the file may follow the path)
	"import hp \"helper.tsh\"\n",
	"import \"strings\"\n",
	"import (\n\thp \"helper.tsh\"\n)\nimport \"strings\"\n",
	"import (\n\t\"strings\"\n\thp \"helper.tsh\"\n)\n",
}

// programs whose string literals span several lines (raw strings, and interpreted strings with a literal line break,
// which this lexer accepts)
var c12MultilineBases = []string{
	"banner := `line one\nline two`\nprint(len(banner))\nprint(banner)\n",
	"a := `x\n\n  y  \n`\nb := \"p\nq\"\nprint(len(a), len(b))\nif a != b {\n\tprint(a + b)\n}\n",
	"func f(s string) string {\n\treturn s + `\n--\n`\n}\nprint(f(`a\nb`))\nfor i, c := range `m\nn` {\n\tprint(i, c)\n}\n",
	"s := []string{`one\ntwo`, \"three\nfour\"}\nprint(s[0], s[1])\nwrite(\"o.txt\", `l1\nl2`)\n",
	"/* block\ncomment */\nx := `r\ns` // c\nswitch x {\ncase `r\ns`:\n\tprint(1)\ndefault:\n\tprint(2)\n}\n",
}

func TestC12(t *testing.T) {
	r, e := start(t, "C12",
		"base programs: generated accepted programs (scalars, functions, slices, strings, switch, every loop form, input/read/write/exists and program calls, error/nil spellings), the repository suite's sources, programs with single and grouped imports, programs whose string literals span several lines, and rejected programs (token-edited or type-corrupted); each held as a token stream and re-rendered with random layout: zero/one/many blanks or tabs between tokens (zero only where the token grammar keeps them apart; a-1 is a legal re-layout of a - 1), inline block comments, trailing blanks, // comments before line breaks, LF/CRLF/mixed, 0-3 blank or comment-only lines at any existing line break (after '{', after 'case x:', inside import groups, at the start), any indentation, final newline dropped or added, blanks / a line comment / a block comment after the last token of a file without final line break, a comment-only last line without line break; plus the whole file saved with CRLF (line breaks inside multi-line string literals included). Oracle: same accept/reject for both targets and byte-identical scripts. Non-trivial = at least 3 layout edits of at least 2 kinds; distinct by re-laid-out text.",
		[]string{"line breaks are only added next to existing line breaks (newlines are tokens of this grammar)", "multi-line block comments are only used as comment-only lines", "error texts are not compared (they carry positions)"})
	defer r.Flush()
	c13CorpusOnce.Do(loadC13Corpus)
	gcfg := gen.Cfg{MaxStmts: 16, MaxDepth: 3, ExprDepth: 3, Funcs: true, MaxFuncs: 3, Slices: true, StrOps: true, LoopBudget: 8, Panics: true, IO: true, ErrSpell: true, BareExpr: true}

	// fixed cases named by the property (shard 0)
	if e.Shard == 0 {
		fixed := []layoutCase{
			{Original: "a := 5\nb := a - 1\nprint(b)\n", Relaid: "a := 5\nb := a-1\nprint(b)\n", Edits: []string{"minus-digit-after-operand"}},
			{Original: "s := []int{1, 2}\nprint(s[len(s) - 1])\n", Relaid: "s := []int{1, 2}\nprint(s[len(s)-1])\n", Edits: []string{"minus-digit-after-operand"}},
			{Original: c12ImportBases[0], Relaid: "import (\n\n\thp \"helper.tsh\"\n\t// std\n\t\"strings\"\n\n)\nprint(hp.Twice(2), strings.Contains(\"ab\", \"b\"))\n", Others: map[string]string{"helper.tsh": c12Helper}, Edits: []string{"blank-line-in-import-group", "comment-line-in-import-group"}},
			{Original: "print(\"one\")\n", Relaid: "/* a */ print(\"one\") /* b */\n", Edits: []string{"block-comment"}},
			{Original: "x := 1\nif x == 1 {\n\tprint(x)\n}\n", Relaid: "x := 1\r\nif x == 1 {\r\n\r\n\tprint(x)\r\n}", Edits: []string{"crlf", "blank-line-after-brace", "no-final-newline"}},
		}
		for _, c := range fixed {
			c.Kind, c.Property = "layout-pair", "C12"
			r.Eval()
			r.NonTrivial(c.Relaid, nil)
			if kind, msg := checkLayoutPair(c); kind != "" {
				r.Violate(rep.Sig{"kind": kind, "edits": strings.Join(c.Edits, "+"), "fixed": "yes"}, msg+"\n--- relaid\n"+c.Relaid, c)
			}
		}
	}

	checkRapid(t, r, func(t *rapid.T) {
		var src string
		others := map[string]string{}
		base := gen.Uniform(0, 9).Draw(t, "base")
		baseKind := ""
		switch {
		case base <= 3:
			stmts, _ := gen.Stmts(t, gcfg)
			src = ts.StmtsString(stmts)
			baseKind = "generated"
		case base <= 5:
			src = c13CorpusSrc[gen.Uniform(0, len(c13CorpusSrc)-1).Draw(t, "corpus")]
			baseKind = "suite"
		case base <= 7 && gen.Uniform(0, 2).Draw(t, "multiline") == 0:
			src = c12MultilineBases[gen.Uniform(0, len(c12MultilineBases)-1).Draw(t, "multiline-base")]
			baseKind = "multi-line-strings"
		case base <= 7:
			src = c12ImportBases[gen.Uniform(0, len(c12ImportBases)-1).Draw(t, "import-base")]
			others["helper.tsh"] = c12Helper
			baseKind = "imports"
		default:
			// a rejected program: one token of a valid program replaced or deleted
			stmts, _ := gen.Stmts(t, gcfg)
			toks, _, _ := lexref.Lex(ts.StmtsString(stmts))
			if len(toks) > 2 {
				i := gen.Uniform(0, len(toks)-1).Draw(t, "pos")
				if gen.Uniform(0, 1).Draw(t, "del") == 0 {
					toks = append(toks[:i], toks[i+1:]...)
				} else {
					tk, _ := genC11Token(t, 0)
					toks[i] = tk.Tok
				}
			}
			src = renderToks(toks)
			baseKind = "broken"
		}
		toks, _, err := lexref.Lex(src)
		if err != nil || len(toks) == 0 {
			t.Skip("base not lexable")
		}
		relaid, kinds := relayout(t, toks)
		// the re-layout must preserve the token stream (harness self-check)
		rt, _, rerr := lexref.Lex(relaid)
		if rerr != nil {
			r.Discard("relayout-not-lexable")
			t.Skip("relayout broke the text")
		}
		stripNL := func(ts []lexref.Tok) []string {
			out := []string{}
			lastNL := true
			for _, k := range ts {
				if k.Type == lexer.NEWLINE {
					if !lastNL {
						out = append(out, "\n")
					}
					lastNL = true
					continue
				}
				lastNL = false
				out = append(out, fmt.Sprint(k.Type)+":"+k.Text)
			}
			for len(out) > 0 && out[len(out)-1] == "\n" {
				out = out[:len(out)-1]
			}
			return out
		}
		if strings.Join(stripNL(rt), " ") != strings.Join(stripNL(toks), " ") {
			r.Discard("relayout-changed-tokens")
			t.Skip("relayout changed the token stream")
		}
		r.Eval()
		r.Class("base:" + baseKind)
		for _, k := range kinds {
			r.Class("edit:" + k)
		}
		if len(kinds) >= 2 {
			r.NonTrivial(relaid, map[string]any{"original": src, "relaid": relaid, "edits": kinds})
		}
		c := layoutCase{Kind: "layout-pair", Property: "C12", Others: others, Original: src, Relaid: relaid, Edits: kinds}
		if kind, msg := checkLayoutPair(c); kind != "" {
			r.FailCase(t, rep.Sig{"kind": kind, "edits": strings.Join(kinds, "+"), "base": baseKind}, msg+"\n--- original\n"+src+"--- relaid\n"+relaid, c)
		}
		// the whole file saved with CRLF line ends - also the line breaks inside multi-line string literals, which an
		// editor converts like every other (Go: carriage returns inside raw string literals are discarded from the value)
		if !strings.Contains(src, "\r") && gen.Uniform(0, 2).Draw(t, "whole-file-crlf") == 0 {
			crlf := strings.ReplaceAll(src, "\n", "\r\n")
			r.Class("edit:whole-file-crlf")
			cc := layoutCase{Kind: "layout-pair", Property: "C12", Others: others, Original: src, Relaid: crlf, Edits: []string{"whole-file-crlf"}}
			if kind, msg := checkLayoutPair(cc); kind != "" {
				r.FailCase(t, rep.Sig{"kind": kind, "edits": "whole-file-crlf", "base": baseKind}, msg+"\n--- original\n"+src, cc)
			}
		}
	})
}
