package checks

import (
	"encoding/json"
	"fmt"
	"strings"
	"testing"

	"pgregory.net/rapid"
	"verif/harness/gen"
	"verif/harness/rep"
	"verif/harness/run"
	"verif/harness/ts"
)

// C06 — ill-typed programs are never translated; typing does not depend on the target.
// (1) exhaustive table: typed position x offered type/shape x enclosing context;
// (2) random well-typed programs with one position corrupted.

type oty int

const (
	oI oty = iota
	oB
	oS
	oIS
	oBS
	oSS
	oV // call of a function without result
	oM // call of a function with two results (int, string)
)

var otyNames = map[oty]string{oI: "int", oB: "bool", oS: "string", oIS: "[]int", oBS: "[]bool", oSS: "[]string", oV: "no-value", oM: "multi-value"}

type offer struct {
	ty    oty
	shape string // literal | variable | call | operation | error-var | nil
	text  string
}

var c06Offers = []offer{
	{oI, "literal", "1"}, {oI, "variable", "vi"}, {oI, "call", "fi()"}, {oI, "operation", "(vi + 1)"},
	{oB, "literal", "true"}, {oB, "variable", "vb"}, {oB, "call", "fb()"}, {oB, "operation", "(vi == 1)"},
	{oS, "literal", `"s"`}, {oS, "variable", "vs"}, {oS, "call", "fs()"}, {oS, "operation", `(vs + "x")`}, {oS, "error-var", "ve"}, {oS, "nil", "nil"},
	{oIS, "literal", "[]int{1}"}, {oIS, "variable", "vis"}, {oIS, "call", "fis()"},
	{oBS, "literal", "[]bool{true}"}, {oBS, "variable", "vbs"}, {oBS, "call", "fbs()"},
	{oSS, "literal", `[]string{"s"}`}, {oSS, "variable", "vss"}, {oSS, "call", "fss()"},
	{oV, "call", "fv()"},
	{oV, "operation", "(fv())"},
	{oM, "call", "fm()"},
	{oM, "operation", "(fm())"},
}

const c06Prelude = `vi := 1
vb := true
vs := "s"
var ve error = "e"
vis := []int{1, 2}
vbs := []bool{true}
vss := []string{"s"}
wi := 2
ws := "t"
func fi() int {
	return 1
}
func fb() bool {
	return true
}
func fs() string {
	return "s"
}
func fis() []int {
	return []int{1}
}
func fbs() []bool {
	return []bool{true}
}
func fss() []string {
	return []string{"s"}
}
func fv() {
	print("v")
}
func fm() (int, string) {
	return 1, "s"
}
func p1(a int) int {
	return a
}
func p2(a int, b string) int {
	return a
}
func p3(a []int, b bool) {
	print(b)
}
`

type position struct {
	id      string
	lines   []string // "@" is the hole
	accept  func(o offer) bool
	topOnly bool // the template is a top-level construct (function definition) or only meaningful in the defining scope
	only    func(o offer) bool
	skip    func(o offer) bool // cells the property leaves unspecified
}

func is(tys ...oty) func(o offer) bool {
	return func(o offer) bool {
		for _, t := range tys {
			if o.ty == t {
				return true
			}
		}
		return false
	}
}

func single(o offer) bool { return o.ty != oV && o.ty != oM }
func isNil(o offer) bool  { return o.shape == "nil" }
func variableOnly(o offer) bool {
	return o.shape == "variable" || o.shape == "error-var"
}

func c06Positions() []position {
	ps := []position{}
	add := func(id string, accept func(o offer) bool, lines ...string) *position {
		ps = append(ps, position{id: id, lines: lines, accept: accept})
		return &ps[len(ps)-1]
	}
	// arithmetic
	for _, op := range []string{"-", "*", "/", "%"} {
		add("arith-left "+op, is(oI), "x := @ "+op+" 2")
		add("arith-right "+op, is(oI), "x := 7 "+op+" @")
	}
	add("plus-left-int", is(oI), "x := @ + 2")
	add("plus-right-int", is(oI), "x := 2 + @")
	add("plus-left-string", is(oS), `x := @ + "a"`)
	add("plus-right-string", is(oS), `x := "a" + @`)
	// comparisons
	for _, op := range []string{"==", "!="} {
		add("eq-left-int "+op, is(oI), "x := @ "+op+" 2")
		add("eq-right-int "+op, is(oI), "x := 2 "+op+" @")
		add("eq-left-bool "+op, is(oB), "x := @ "+op+" true")
		add("eq-right-bool "+op, is(oB), "x := true "+op+" @")
		add("eq-left-string "+op, is(oS), `x := @ `+op+` "a"`)
		add("eq-right-string "+op, is(oS), `x := "a" `+op+` @`)
	}
	for _, op := range []string{"<", "<=", ">", ">="} {
		add("order-left "+op, is(oI), "x := @ "+op+" 2")
		add("order-right "+op, is(oI), "x := 2 "+op+" @")
	}
	// logical
	add("and-left", is(oB), "x := @ && true")
	add("and-right", is(oB), "x := true && @")
	add("or-left", is(oB), "x := @ || false")
	add("or-right", is(oB), "x := false || @")
	add("not", is(oB), "x := !@")
	add("and-right-in-if", is(oB), "if vb && @ {", "}")
	// definitions
	add("var-int-init", is(oI), "var x int = @")
	add("var-bool-init", is(oB), "var x bool = @")
	add("var-string-init", is(oS), "var x string = @")
	add("var-error-init", is(oS), "var x error = @")
	add("var-intslice-init", is(oIS), "var x []int = @")
	add("var-stringslice-init", is(oSS), "var x []string = @")
	add("var-untyped-init", single, "var x = @").skip = isNil
	add("short-init", single, "x := @").skip = isNil
	add("var-multi-typed-slot1", is(oI), "var x, y int = @, 2")
	add("var-multi-typed-slot2", is(oI), "var x, y int = 2, @")
	add("short-multi-slot1", single, "x, y := @, true").skip = isNil
	add("short-multi-slot2", single, "x, y := true, @").skip = isNil
	add("short-two-from-one", is(oM), "x, y := @")
	add("var-two-from-one", is(oM), "var x, y = @")
	add("var-typed-two-from-multi", func(o offer) bool { return false }, "var x, y int = @").only = is(oM, oI, oV)
	// ":=" that re-uses a variable of the same scope keeps its type (Go: assignment to the existing variable)
	add("short-reuse-existing-slot", is(oI), "vi, nx := @, 2").topOnly = true
	add("short-reuse-existing-slot2", is(oS), "nx, vs := 2, @").topOnly = true
	// the same through a multi-value call: fm() is (int, string), so the re-used variable must have the type of its slot
	add("short-reuse-existing-from-call-slot1-int", is(oM), "vi, nx := @").topOnly = true
	add("short-reuse-existing-from-call-slot2-string", is(oM), "nx, vs := @").topOnly = true
	add("short-reuse-existing-from-call-slot1-mismatch", func(o offer) bool { return false }, "vs, nx := @").only = is(oM)
	add("short-reuse-existing-from-call-slot2-mismatch", func(o offer) bool { return false }, "nx, vi := @").only = is(oM)
	add("short-reuse-existing-from-call-slot2-bool", func(o offer) bool { return false }, "nx, vb := @").only = is(oM)
	add("short-three-from-one", func(o offer) bool { return false }, "x, y, z := @")
	// assignment of a two-value call to one, two (matching) and three existing names
	add("assign-two-from-call", is(oM), "var q1 int", "var q2 string", "q1, q2 = @").only = is(oM)
	add("assign-three-from-call", func(o offer) bool { return false }, "var q1 int", "var q2 string", "var q3 int", "q1, q2, q3 = @").only = is(oM)
	add("assign-three-from-call-string-last", func(o offer) bool { return false }, "var q1 int", "var q2 string", "var q3 string", "q1, q2, q3 = @").only = is(oM)
	add("assign-one-from-call", func(o offer) bool { return false }, "var q1 int", "q1 = @").only = is(oM)
	add("assign-two-from-call-swapped-types", func(o offer) bool { return false }, "var q1 string", "var q2 int", "q1, q2 = @").only = is(oM)
	add("var-three-from-call", func(o offer) bool { return false }, "var q1, q2, q3 = @").only = is(oM)
	// assignments
	add("assign-int", is(oI), "vi = @")
	add("assign-bool", is(oB), "vb = @")
	add("assign-string", is(oS), "vs = @")
	add("assign-error", is(oS), "ve = @")
	add("assign-intslice", is(oIS), "vis = @")
	add("assign-boolslice", is(oBS), "vbs = @")
	add("assign-multi-slot1", is(oI), `vi, vs = @, "x"`)
	add("assign-multi-slot2", is(oS), "vi, vs = 3, @")
	add("assign-two-from-one", is(oM), "vi, vs = @")
	add("assign-two-from-one-wrong-types", func(o offer) bool { return false }, "vs, vi = @")
	for _, op := range []string{"-=", "*=", "/=", "%="} {
		add("compound-int "+op, is(oI), "vi "+op+" @")
	}
	add("compound-int +=", is(oI), "vi += @")
	add("compound-string +=", is(oS), "vs += @")
	add("compound-string -=", func(o offer) bool { return false }, "vs -= @")
	add("compound-bool +=", func(o offer) bool { return false }, "vb += @")
	add("increment", is(oI), "@++").only = variableOnly
	add("decrement", is(oI), "@--").only = variableOnly
	// calls
	add("arg-1of1", is(oI), "p1(@)")
	add("arg-1of2", is(oI), `p2(@, "s")`)
	add("arg-2of2", is(oS), "p2(1, @)")
	add("arg-slice", is(oIS), "p3(@, true)")
	add("arg-2of2-bool", is(oB), "p3(vis, @)")
	add("arg-in-operand", is(oI), "x := 1 + p1(@)")
	add("arity-too-few", func(o offer) bool { return false }, "p2(@)")
	add("arity-too-many", func(o offer) bool { return false }, "p1(1, @)")
	add("arity-zero-given-one", func(o offer) bool { return false }, "fi(@)")
	// conditions
	add("if-cond", is(oB), "if @ {", "}")
	add("elif-cond", is(oB), "if vb {", "} else if @ {", "}")
	add("elif2-cond", is(oB), "if vb {", "} else if vb {", "} else if @ {", "} else {", "print(1)", "}")
	add("for-cond", is(oB), "for @ {", "break", "}")
	add("for-clause-cond", is(oB), "for k2 := 0; @; k2++ {", "break", "}")
	// switch
	add("case-int", is(oI), "switch vi {", "case @:", "}")
	add("case-int-second", is(oI), "switch vi {", "case 1:", "case @:", "default:", "}")
	add("case-string", is(oS), "switch vs {", "case @:", "}")
	add("case-bool-tagless", is(oB), "switch {", "case @:", "}")
	add("case-bool-true", is(oB), "switch true {", "case @:", "}")
	add("tag-with-int-case", is(oI), "switch @ {", "case 1:", "}")
	add("tag-with-string-case", is(oS), "switch @ {", `case "a":`, "}")
	add("tag-alone", is(oI, oB, oS), "switch @ {", "default:", "}")
	// range
	add("range-operand", is(oS, oIS, oBS, oSS), "for i2, v2 := range @ {", "}")
	add("range-operand-index-only", is(oS, oIS, oBS, oSS), "for i2 := range @ {", "}")
	// slice literals
	add("intslice-elem", is(oI), "x := []int{@}")
	add("intslice-elem2", is(oI), "x := []int{1, @}")
	add("boolslice-elem", is(oB), "x := []bool{@}")
	add("stringslice-elem", is(oS), "x := []string{@, \"b\"}")
	// indexing
	add("slice-read-index", is(oI), "x := vis[@]")
	add("slice-write-index", is(oI), "vis[@] = 5")
	add("slice-write-value-int", is(oI), "vis[0] = @")
	add("slice-write-value-bool", is(oB), "vbs[0] = @")
	add("slice-write-value-string", is(oS), "vss[0] = @")
	add("string-index", is(oI), "x := vs[@]")
	add("substring-lo", is(oI), "x := vs[@:1]")
	add("substring-hi", is(oI), "x := vs[0:@]")
	add("substring-lo-only", is(oI), "x := vs[@:]")
	add("substring-hi-only", is(oI), "x := vs[:@]")
	add("subscripted-value", is(oS, oIS, oBS, oSS), "x := @[0]").only = variableOnly
	sv := add("substring-of-value", is(oS), "x := @[0:1]")
	sv.only = variableOnly
	sv.skip = is(oIS, oBS, oSS) // slicing a slice: Go allows it, TypeShell answers "not supported": not asserted
	// builtins
	add("len-arg", is(oS, oIS, oBS, oSS), "x := len(@)")
	add("itoa-arg", is(oI), "x := itoa(@)")
	add("exists-arg", is(oS), "x := exists(@)")
	add("read-arg", is(oS), "x := read(@)")
	add("write-path", is(oS), `write(@, "d")`)
	add("write-data", is(oS), `write("p", @)`)
	add("write-append", is(oB), `write("p", "d", @)`)
	add("write-arity-1", func(o offer) bool { return false }, "write(@)")
	add("write-arity-4", func(o offer) bool { return false }, `write("p", "d", true, @)`)
	add("copy-dst-int", func(o offer) bool { return o.ty == oIS && o.shape == "variable" }, "x := copy(@, vis)")
	add("copy-src-int", is(oIS), "x := copy(vis, @)")
	add("copy-src-string", is(oSS), "x := copy(vss, @)")
	add("input-prompt", is(oS), "x := input(@)")
	// program calls take texts: single scalar values (a slice, no value, several values are no argument)
	add("program-arg", is(oS, oI, oB), "§echo(@)")
	add("program-arg-second", is(oS, oI, oB), `§echo("a", @)`)
	add("program-arg-captured", is(oS, oI, oB), "po, pe, pc := §echo(@)")
	add("program-arg-second-stage", is(oS, oI, oB), `§echo("a") | §cat(@)`)
	add("print-arg", func(o offer) bool { return o.ty != oV }, "print(@)")
	add("print-arg2", func(o offer) bool { return o.ty != oV }, "print(1, @)").skip = is(oM)
	add("len-arity-2", func(o offer) bool { return false }, "x := len(vs, @)")
	add("itoa-arity-0", func(o offer) bool { return false }, "x := itoa()").only = func(o offer) bool { return o.text == "1" }
	// returns (function-level templates)
	ret := func(id string, accept func(o offer) bool, lines ...string) *position {
		p := add(id, accept, lines...)
		p.topOnly = true
		return p
	}
	ret("return-int", is(oI), "func r() int {", "return @", "}")
	ret("return-bool", is(oB), "func r() bool {", "return @", "}")
	ret("return-string", is(oS), "func r() string {", "return @", "}")
	ret("return-error", is(oS), "func r() error {", "return @", "}")
	ret("return-intslice", is(oIS), "func r() []int {", "return @", "}").skip = isNil
	ret("return-stringslice", is(oSS), "func r() []string {", "return @", "}").skip = isNil
	ret("return-slot1of2", is(oI), "func r() (int, string) {", `return @, "s"`, "}")
	ret("return-slot2of2", is(oS), "func r() (int, string) {", "return 1, @", "}")
	ret("return-too-few", func(o offer) bool { return false }, "func r() (int, string) {", "return @", "}").skip = is(oM)
	ret("return-too-many", func(o offer) bool { return false }, "func r() int {", "return 1, @", "}")
	ret("return-in-void", func(o offer) bool { return false }, "func r() {", "return @", "}")
	ret("return-nested-if", is(oI), "func r() int {", "if vb {", "return @", "}", "return 1", "}")
	ret("return-nested-for", is(oI), "func r() int {", "for k3 := 0; k3 < 1; k3++ {", "return @", "}", "return 1", "}")
	ret("return-nested-switch", is(oS), "func r() string {", "switch vi {", "case 1:", "return @", "}", `return "s"`, "}")
	ret("return-nested-deep", is(oB), "func r() bool {", "for k3 := 0; k3 < 1; k3++ {", "if vb {", "return @", "} else {", "return true", "}", "}", "return false", "}")
	ret("return-nested-arity", func(o offer) bool { return false }, "func r() (int, string) {", "if vb {", "return @", "}", `return 1, "s"`, "}").skip = is(oM)
	ret("return-nested-in-void", func(o offer) bool { return false }, "func r() {", "if vb {", "return @", "}", "}")
	return ps
}

type c06Ctx struct {
	name string
	pre  []string
	post []string
}

var c06Contexts = []c06Ctx{
	{"top", nil, nil},
	{"function", []string{"func ctxf() {"}, []string{"}", "ctxf()"}},
	{"if-body", []string{"if vb {"}, []string{"}"}},
	{"for-body", []string{"for k := 0; k < 1; k++ {"}, []string{"}"}},
	{"switch-case", []string{"switch vi {", "case 1:"}, []string{"}"}},
	{"function-nested-2", []string{"func ctxg() {", "for k := 0; k < 1; k++ {", "if vb {"}, []string{"}", "}", "}", "ctxg()"}},
	// code that never runs is typed like code that runs: a function nobody calls (its text is removed before the
	// script is written), nested blocks inside one, and a function whose only caller is itself never called
	{"function-unused", []string{"func ctxu() {"}, []string{"}"}},
	{"function-unused-nested-2", []string{"func ctxv() {", "for k := 0; k < 1; k++ {", "if vb {"}, []string{"}", "}", "}"}},
	{"function-called-by-unused", []string{"func ctxw() {"}, []string{"}", "func ctxx() {", "ctxw()", "}"}},
	// templates that are function definitions themselves (return slots): the function is also called
	{"top-called", nil, []string{"r()"}},
}

func c06Build(p position, o offer, ctx c06Ctx) string {
	var sb strings.Builder
	sb.WriteString(c06Prelude)
	for _, l := range ctx.pre {
		sb.WriteString(l + "\n")
	}
	for _, l := range p.lines {
		sb.WriteString(strings.ReplaceAll(strings.ReplaceAll(l, "@", o.text), "§", "@") + "\n") // § = the sign of a program call
	}
	for _, l := range ctx.post {
		sb.WriteString(l + "\n")
	}
	return sb.String()
}

type verdictCase struct {
	Kind     string            `json:"kind"` // "verdict"
	Property string            `json:"property"`
	Files    map[string]string `json:"files"`
	Main     string            `json:"main"`
	Expect   string            `json:"expect"` // accept | reject
	Note     string            `json:"note,omitempty"`
}

// checkVerdict transpiles for both targets and compares with the expected verdict.
// Returns "" if everything is as the property demands, else (kind, message).
func checkVerdict(c verdictCase) (string, string) {
	var verdicts []string
	for _, tg := range []run.Target{run.Bash, run.Batch} {
		tr := run.TranspileSrc(c.Files, c.Main, tg)
		v := tr.Verdict()
		verdicts = append(verdicts, v)
		switch v {
		case "panic", "timeout":
			return "crash", fmt.Sprintf("%s target: %s", tg, tr.ErrText())
		case "reject":
			if tr.Script != "" {
				return "script-and-error", fmt.Sprintf("%s target returned an error together with a script", tg)
			}
			if tr.Err.Error() == "" {
				return "empty-error", fmt.Sprintf("%s target returned an empty error", tg)
			}
		}
		if v != c.Expect {
			if c.Expect == "reject" {
				return "accepted-ill-typed", fmt.Sprintf("%s target translated a program that must be rejected", tg)
			}
			return "rejected-well-typed", fmt.Sprintf("%s target rejected a well-typed program: %s", tg, tr.ErrText())
		}
	}
	if verdicts[0] != verdicts[1] {
		return "target-dependent", fmt.Sprintf("bash says %s, batch says %s", verdicts[0], verdicts[1])
	}
	return "", ""
}

// asImport turns a single-file verdict case into "the same text as an imported file": main.tsh only imports it.
// Typing and scoping rules do not depend on whether a file is the entry file, so the expected verdict is unchanged
// (names of an imported file are stored under a prefix: the lookups differ, the rules do not).
func asImport(c verdictCase) (verdictCase, bool) {
	if len(c.Files) != 1 || strings.Contains(c.Files[c.Main], "import ") {
		return c, false
	}
	n := c
	n.Files = map[string]string{"main.tsh": "import lb \"lib.tsh\"\n", "lib.tsh": c.Files[c.Main]}
	n.Main = "main.tsh"
	n.Note = c.Note + " (as imported file)"
	return n, true
}

func init() {
	replayFuncs["verdict"] = func(raw json.RawMessage) (bool, string) {
		var c verdictCase
		json.Unmarshal(raw, &c)
		k, msg := checkVerdict(c)
		return k == "", k + ": " + msg
	}
}

func TestC06(t *testing.T) {
	r, e := start(t, "C06",
		"(1) exhaustive table: every typed position of the grammar (operands of each operator, definition/assignment/compound slots, arguments and arity, return slots at any nesting depth, conditions, case expressions and tags, range operands, slice elements, indices, bounds, builtin arguments) x every offered type {int,bool,string/error/nil,[]int,[]bool,[]string,no-value,multi-value} in up to 4 expression shapes x 9 enclosing contexts (top level, function, if, for, switch case, two blocks deep inside a function, a function that is never called, two blocks deep inside one, a function only called by a function that is never called; return slots in a function that is / is not called); (2) random well-typed programs with one expression replaced by one of another type; the corrupted program and one expression shape of every table cell are also checked as the text of an IMPORTED file (same verdict expected). Oracle: own typing rules (Go's for the shared syntax, README signatures for builtins): accept iff well-typed, same verdict for Bash and Batch, no script on error. Non-trivial = cells whose offered expression is itself well-typed but of the wrong type for the position, and accept cells with a non-literal shape; distinct by program text.",
		[]string{"not asserted (unspecified by the property / README): ordering comparison of strings, panic argument type, slice equality, x := nil, nil returned for a slice result, slicing a slice, multi-valued call as sole argument of another call", "error is string and nil is the empty string, as the README states"})
	defer r.Flush()

	// (1) the table — enumerated completely in both tiers, split across shards
	idx := 0
	cells := 0
	for _, p := range c06Positions() {
		for _, o := range c06Offers {
			if p.only != nil && !p.only(o) {
				continue
			}
			if p.skip != nil && p.skip(o) {
				continue
			}
			if o.ty == oM && o.shape == "operation" && p.accept(o) {
				continue // a parenthesised multi-value call where several values are wanted: not asserted
			}
			for _, ctx := range c06Contexts {
				if ctx.name == "top-called" {
					if !p.topOnly || !strings.HasPrefix(p.lines[0], "func r()") {
						continue
					}
				} else if p.topOnly && ctx.name != "top" {
					continue
				}
				idx++
				if !e.Mine(idx) {
					continue
				}
				cells++
				src := c06Build(p, o, ctx)
				expect := "reject"
				if p.accept(o) {
					expect = "accept"
				}
				r.Eval()
				r.Class("table:"+expect, "ctx:"+ctx.name, "offer:"+otyNames[o.ty])
				if (expect == "reject" && single(o)) || (expect == "accept" && o.shape != "literal") {
					r.NonTrivial(src, map[string]any{"position": p.id, "offered": otyNames[o.ty] + "/" + o.shape, "context": ctx.name, "expect": expect})
				}
				c := verdictCase{Kind: "verdict", Property: "C06", Files: map[string]string{"main.tsh": src}, Main: "main.tsh", Expect: expect,
					Note: fmt.Sprintf("position %q, offered %s (%s: %s), context %s", p.id, otyNames[o.ty], o.shape, o.text, ctx.name)}
				if kind, msg := checkVerdict(c); kind != "" {
					ctxKind := "top"
					if ctx.name != "top" {
						ctxKind = "nested"
					}
					r.Violate(rep.Sig{"position": p.id, "offered": otyNames[o.ty], "shape": o.shape, "context": ctxKind, "kind": kind}, c.Note+": "+msg+"\n"+strings.TrimPrefix(src, c06Prelude), c)
				} else if ci, ok := asImport(c); ok && o.shape == "variable" {
					// the same cell with the program text as an imported file (one expression shape per cell)
					r.Eval()
					r.Class("table:as-imported-file")
					if kind, msg := checkVerdict(ci); kind != "" {
						r.Violate(rep.Sig{"position": p.id, "offered": otyNames[o.ty], "shape": o.shape, "kind": kind, "as-import": "yes"}, ci.Note+": "+msg+"\n"+strings.TrimPrefix(src, c06Prelude), ci)
					}
				}
			}
		}
	}
	r.SetExtra("n_table_cells", cells)
	r.SetExhaustive(false)

	// (2) random corruption of one typed position of a generated well-typed program
	cfg := gen.Cfg{MaxStmts: 14, MaxDepth: 3, ExprDepth: 3, Funcs: true, MaxFuncs: 2, Slices: true, StrOps: true, LoopBudget: 8}
	checkRapid(t, r, func(t *rapid.T) {
		stmts, _ := gen.Stmts(t, cfg)
		src0 := ts.StmtsString(stmts)
		// choose the typed position to corrupt
		typedSite := func(kind string) bool {
			switch kind {
			case "group", "untyped-init", "multi-call-init", "multi-call-assign":
				return false
			}
			return true
		}
		nsites := 0
		(&ts.Rewriter{Site: func(e ts.Expr, kind string) (ts.Expr, bool) {
			if typedSite(kind) && e.T() != ts.TVoid {
				nsites++
			}
			return nil, false
		}}).Stmts(stmts)
		if nsites == 0 {
			t.Skip("no typed position")
		}
		target := gen.Uniform(0, nsites-1).Draw(t, "site")
		pick := gen.Uniform(0, 99).Draw(t, "replacement")
		var orig, repl ts.Expr
		var want ts.Type
		siteName := ""
		k := 0
		corrupted := (&ts.Rewriter{Site: func(e ts.Expr, kind string) (ts.Expr, bool) {
			if !typedSite(kind) || e.T() == ts.TVoid {
				return nil, false
			}
			k++
			if k-1 != target {
				return nil, false
			}
			orig, want, siteName = e, e.T(), kind
			// an expression of another type, built from literals only (always well-typed in itself)
			others := []ts.Expr{ts.IntLit{V: 3}, ts.BoolLit{V: true}, ts.StrLit{V: "q"}, ts.SliceLit{Elem: ts.TInt, Elems: []ts.Expr{ts.IntLit{V: 1}}},
				ts.SliceLit{Elem: ts.TString}, ts.SliceLit{Elem: ts.TBool, Elems: []ts.Expr{ts.BoolLit{V: false}}},
				ts.Bin{Op: "+", Ty: ts.TInt, L: ts.IntLit{V: 1}, R: ts.IntLit{V: 2}}, ts.Cmp{Op: "<", L: ts.IntLit{V: 1}, R: ts.IntLit{V: 2}}, ts.Itoa{X: ts.IntLit{V: 5}}}
			cands := []ts.Expr{}
			for _, o := range others {
				if o.T() != want {
					cands = append(cands, o)
				}
			}
			repl = ts.Group{E: cands[pick%len(cands)]}
			return repl, true
		}}).Stmts(stmts)
		src := ts.StmtsString(corrupted)
		r.Eval()
		r.Class("corrupt:" + want.String() + "->" + repl.T().String())
		r.NonTrivial(src, map[string]any{"source": src, "corrupted": ts.ExprString(orig) + " -> " + ts.ExprString(repl)})
		// the uncorrupted program must be accepted ...
		c0 := verdictCase{Kind: "verdict", Property: "C06", Files: map[string]string{"main.tsh": src0}, Main: "main.tsh", Expect: "accept"}
		if kind, msg := checkVerdict(c0); kind != "" {
			r.FailCase(t, rep.Sig{"random": "well-typed", "kind": kind}, msg+"\n"+src0, c0)
		}
		// ... and the corrupted one rejected, for both targets
		c := verdictCase{Kind: "verdict", Property: "C06", Files: map[string]string{"main.tsh": src}, Main: "main.tsh", Expect: "reject",
			Note: "corrupted " + ts.ExprString(orig) + " (" + want.String() + ") into " + ts.ExprString(repl) + " (" + repl.T().String() + ")"}
		if kind, msg := checkVerdict(c); kind != "" {
			r.FailCase(t, rep.Sig{"random": "corrupted", "kind": kind, "want": want.String(), "got": repl.T().String(), "site": siteName}, c.Note+": "+msg+"\n"+src, c)
		}
		if ci, ok := asImport(c); ok {
			if kind, msg := checkVerdict(ci); kind != "" {
				r.FailCase(t, rep.Sig{"random": "corrupted", "kind": kind, "want": want.String(), "got": repl.T().String(), "site": siteName, "as-import": "yes"}, ci.Note+": "+msg+"\n"+src, ci)
			}
		}
	})
}
