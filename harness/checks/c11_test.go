package checks

import (
	"encoding/json"
	"fmt"
	"regexp"
	"strings"
	"testing"
	"unicode/utf8"

	"github.com/monstermichl/typeshell/lexer"
	"pgregory.net/rapid"
	"verif/harness/gen"
	"verif/harness/lexref"
	"verif/harness/rep"
)

// ---------------------------------------------------------------------------------------------
// C11 — tokenisation is faithful.
// Domain: random token lists rendered with random legal separators / comments / line ends.
// Oracle: lexer.Tokenize returns exactly the generating list (type, value, row, column), then EOF;
// malformed inputs (unterminated strings, unknown characters, bad escapes) give an error.

type c11Tok struct {
	lexref.Tok
	Kind string // generator class
}

var c11TypeNames = map[lexer.TokenType]string{}

func init() {
	for k, v := range lexref.Punct {
		_ = k
		c11TypeNames[v] = fmt.Sprintf("punct(%d)", v)
	}
	c11TypeNames[lexer.IDENTIFIER] = "IDENTIFIER"
	c11TypeNames[lexer.NUMBER_LITERAL] = "NUMBER"
	c11TypeNames[lexer.STRING_LITERAL] = "STRING"
	c11TypeNames[lexer.BOOL_LITERAL] = "BOOL"
	c11TypeNames[lexer.NIL_LITERAL] = "NIL"
	c11TypeNames[lexer.NEWLINE] = "NEWLINE"
	c11TypeNames[lexer.EOF] = "EOF"
	c11TypeNames[lexer.COMMENT] = "COMMENT"
	c11TypeNames[lexer.UNKNOWN] = "UNKNOWN"
	c11TypeNames[lexer.DATA_TYPE] = "DATA_TYPE"
}

func typeName(t lexer.TokenType) string {
	if n, ok := c11TypeNames[t]; ok {
		return n
	}
	return fmt.Sprintf("type(%d)", t)
}

var trickyIdents = []string{"trueish", "falsey", "truex", "false1", "nilx", "format", "iffy", "returnx", "lenx", "printer",
	"intx", "stringy", "boolean", "errors", "_", "_x", "__", "a1", "x_y", "i", "T", "forx", "caseA", "defaults", "varx", "func1",
	"elsewhere", "switcher", "ranger", "breaker", "continued", "inputs", "copyx", "itoa2", "exists_", "reader", "writer", "panicky", "imports", "true_", "nil0"}

func genIdent(t *rapid.T) string {
	if rapid.Bool().Draw(t, "tricky") {
		return rapid.SampledFrom(trickyIdents).Draw(t, "ident")
	}
	for {
		s := rapid.StringMatching(`[a-zA-Z_][a-zA-Z0-9_]{0,6}`).Draw(t, "ident")
		if _, kw := lexref.Keywords[s]; !kw {
			return s
		}
	}
}

var keywordList, punctList []string

func init() {
	for k := range lexref.Keywords {
		keywordList = append(keywordList, k)
	}
	for k := range lexref.Punct {
		punctList = append(punctList, k)
	}
	sortStrings(keywordList)
	sortStrings(punctList)
}

func sortStrings(s []string) {
	for i := 1; i < len(s); i++ {
		for j := i; j > 0 && s[j] < s[j-1]; j-- {
			s[j], s[j-1] = s[j-1], s[j]
		}
	}
}

// genInterpreted returns (literal text, value, class flags).
func genInterpreted(t *rapid.T) (string, string, []string) {
	n := rapid.IntRange(0, 8).Draw(t, "npieces")
	var lit, val strings.Builder
	flags := map[string]bool{}
	lit.WriteByte('"')
	for k := 0; k < n; k++ {
		switch rapid.IntRange(0, 9).Draw(t, "piece") {
		case 0, 1, 2, 3:
			// printable ASCII except " and \
			c := byte(rapid.IntRange(0x20, 0x7e).Draw(t, "ch"))
			if c == '"' || c == '\\' {
				c = 'q'
			}
			lit.WriteByte(c)
			val.WriteByte(c)
		case 4:
			esc := rapid.SampledFrom([]string{`\a`, `\b`, `\f`, `\n`, `\r`, `\t`, `\v`, `\\`, `\"`}).Draw(t, "esc")
			lit.WriteString(esc)
			u, _ := unquote(`"` + esc + `"`)
			val.WriteString(u)
			flags["escape-simple"] = true
		case 5:
			b := rapid.IntRange(0, 255).Draw(t, "xbyte")
			esc := fmt.Sprintf(`\x%02x`, b)
			if rapid.Bool().Draw(t, "upper") {
				esc = fmt.Sprintf(`\x%02X`, b)
			}
			lit.WriteString(esc)
			val.WriteByte(byte(b))
			flags["escape-xHH"] = true
		case 6:
			b := rapid.IntRange(0, 255).Draw(t, "obyte")
			lit.WriteString(fmt.Sprintf(`\%03o`, b))
			val.WriteByte(byte(b))
			flags["escape-octal"] = true
		case 7:
			r := rapid.SampledFrom([]rune{0x41, 0xe9, 0x20ac, 0x7f, 0x100, 0xffff, 0x1f600, 0x10ffff, 0x0}).Draw(t, "rune")
			if r > 0xffff || rapid.Bool().Draw(t, "bigU") {
				lit.WriteString(fmt.Sprintf(`\U%08x`, r))
			} else {
				lit.WriteString(fmt.Sprintf(`\u%04x`, r))
			}
			val.WriteRune(r)
			flags["escape-unicode"] = true
		case 8:
			s := rapid.SampledFrom([]string{"é", "€", "😀", "ü", "日本", "ß"}).Draw(t, "utf8")
			lit.WriteString(s)
			val.WriteString(s)
			flags["non-ascii-in-string"] = true
		case 9:
			s := rapid.SampledFrom([]string{"//", "/*", "*/", "`", "'", "$x", "true", " ", "\t", "-1", "=="}).Draw(t, "codey")
			lit.WriteString(s)
			val.WriteString(s)
			flags["code-like-in-string"] = true
		}
	}
	lit.WriteByte('"')
	fl := []string{}
	for k := range flags {
		fl = append(fl, k)
	}
	sortStrings(fl)
	return lit.String(), val.String(), fl
}

func unquote(s string) (string, error) {
	toks, _, err := lexref.Lex(s)
	if err != nil || len(toks) != 1 {
		return "", fmt.Errorf("bad literal %q", s)
	}
	return toks[0].Value, nil
}

func genRaw(t *rapid.T) (string, string, []string) {
	n := rapid.IntRange(0, 8).Draw(t, "npieces")
	var sb strings.Builder
	flags := []string{"raw-string"}
	multi := false
	for k := 0; k < n; k++ {
		switch rapid.IntRange(0, 6).Draw(t, "piece") {
		case 0, 1, 2:
			c := byte(rapid.IntRange(0x20, 0x7e).Draw(t, "ch"))
			if c == '`' {
				c = 'q'
			}
			sb.WriteByte(c)
		case 3:
			sb.WriteByte('\n')
			multi = true
		case 4:
			sb.WriteString(rapid.SampledFrom([]string{`\n`, `\`, `\\`, `"`, `\"`, `\x41`}).Draw(t, "bs"))
		case 5:
			sb.WriteString(rapid.SampledFrom([]string{"é", "€", "😀"}).Draw(t, "utf8"))
		case 6:
			sb.WriteString(rapid.SampledFrom([]string{"//", "/*", "*/", "\t"}).Draw(t, "codey"))
		}
	}
	if multi {
		flags = append(flags, "multi-line-raw-string")
	}
	v := sb.String()
	return "`" + v + "`", v, flags
}

func genC11Token(t *rapid.T, prev lexer.TokenType) (c11Tok, []string) {
	for {
		switch rapid.IntRange(0, 11).Draw(t, "kind") {
		case 0, 1:
			s := genIdent(t)
			fl := []string{}
			for kw := range lexref.Keywords {
				if strings.HasPrefix(s, kw) && s != kw {
					fl = append(fl, "keyword-prefix-ident")
					break
				}
			}
			return c11Tok{lexref.Tok{Type: lexer.IDENTIFIER, Text: s, Value: s}, "ident"}, fl
		case 2:
			s := rapid.SampledFrom(keywordList).Draw(t, "kw")
			return c11Tok{lexref.Tok{Type: lexref.Keywords[s], Text: s, Value: s}, "keyword"}, nil
		case 3, 4:
			v := rapid.OneOf(rapid.Uint64Range(0, 20), rapid.SampledFrom([]uint64{99, 100, 2147483647, 2147483648, 4294967296, 9223372036854775807, 9223372036854775808, 007}), rapid.Uint64()).Draw(t, "num")
			s := fmt.Sprint(v)
			if rapid.IntRange(0, 5).Draw(t, "lead0") == 0 {
				s = "0" + s
			}
			if !lexref.EndsOperand(prev) && rapid.IntRange(0, 2).Draw(t, "neg") == 0 {
				s = "-" + s
			}
			return c11Tok{lexref.Tok{Type: lexer.NUMBER_LITERAL, Text: s, Value: s}, "number"}, nil
		case 5:
			lit, val, fl := genInterpreted(t)
			return c11Tok{lexref.Tok{Type: lexer.STRING_LITERAL, Text: lit, Value: val}, "string"}, fl
		case 6:
			lit, val, fl := genRaw(t)
			return c11Tok{lexref.Tok{Type: lexer.STRING_LITERAL, Text: lit, Value: val}, "rawstring"}, fl
		case 7, 8, 9:
			s := rapid.SampledFrom(punctList).Draw(t, "punct")
			return c11Tok{lexref.Tok{Type: lexref.Punct[s], Text: s, Value: s}, "punct"}, nil
		case 10, 11:
			return c11Tok{lexref.Tok{Type: lexer.NEWLINE, Text: "\n", Value: "\n"}, "newline"}, nil
		}
	}
}

func genCommentBody(t *rapid.T, block bool) string {
	s := rapid.SampledFrom([]string{"", " c ", "x := 1", "\"", "`", "'", " // nested ", " /* ", "*", "/", "* /", "print(\"a\")", "é", "a\tb", "-1", "**"}).Draw(t, "cbody")
	if block && rapid.IntRange(0, 2).Draw(t, "cml") == 0 {
		s = s + "\n" + rapid.SampledFrom([]string{"", " more", "\tx", "\n", "  * y"}).Draw(t, "cbody2")
	}
	if block {
		s = strings.ReplaceAll(s, "*/", "* /")
		if strings.HasSuffix(s, "*") {
			// "/**" + "*/" is fine, but keep the terminator unambiguous for the reader
			s += " "
		}
	}
	return s
}

type c11Case struct {
	Kind     string       `json:"kind"`
	Property string       `json:"property"`
	Source   string       `json:"source"`
	Expect   []lexref.Tok `json:"expect"`
	WantErr  bool         `json:"want_err"`
	Note     string       `json:"note,omitempty"`
}

// render builds the source text and fills in positions. Returns (actual text, flags).
func c11Render(t *rapid.T, toks []c11Tok) (string, []lexref.Tok, []string) {
	var norm, act strings.Builder
	flags := map[string]bool{}
	ncomments := 0
	crlfMode := rapid.IntRange(0, 3).Draw(t, "crlf") // 0,1: LF; 2: CRLF; 3: mixed
	nl := func() {
		norm.WriteByte('\n')
		switch {
		case crlfMode == 2, crlfMode == 3 && rapid.Bool().Draw(t, "crlf1"):
			act.WriteString("\r\n")
			flags["crlf"] = true
		default:
			act.WriteByte('\n')
		}
	}
	writeText := func(s string) {
		for i := 0; i < len(s); i++ {
			if s[i] == '\n' {
				nl()
			} else {
				norm.WriteByte(s[i])
				act.WriteByte(s[i])
			}
		}
	}
	sep := func(prevprev lexer.TokenType, a *c11Tok, b *c11Tok) {
		// a may be nil (file start), b may be nil (file end)
		mustSep := false
		if a != nil && b != nil {
			mustSep = !lexref.Same(prevprev, a.Tok, b.Tok)
			if a.Type == lexer.DOT && b.Type == lexer.NUMBER_LITERAL && prevprev == lexer.NUMBER_LITERAL {
				mustSep = true // 1.5 would be a float literal; floats are outside the property
			}
			if a.Type == lexer.NUMBER_LITERAL && b.Type == lexer.DOT {
				mustSep = true
			}
		}
		n := rapid.IntRange(0, 3).Draw(t, "nsep")
		if mustSep && n == 0 {
			n = 1
		}
		wrote := false
		for k := 0; k < n; k++ {
			choice := rapid.IntRange(0, 9).Draw(t, "sep")
			switch {
			case choice <= 4:
				writeText(rapid.SampledFrom([]string{" ", "\t", "  ", " \t "}).Draw(t, "blank"))
				wrote = true
			case choice <= 7:
				body := genCommentBody(t, true)
				if !wrote && a != nil && strings.HasSuffix(a.Text, "/") {
					writeText(" ") // "/" + "/*" would read as a line comment
				}
				writeText("/*" + body + "*/")
				ncomments++
				wrote = true
				if strings.Contains(body, "\n") {
					flags["multi-line-comment"] = true
				} else {
					flags["inline-block-comment"] = true
				}
			default:
				// line comment only directly before a NEWLINE token or at the end of the file
				if b == nil || b.Type == lexer.NEWLINE {
					if !wrote && a != nil && a.Text == "/" {
						writeText(" ")
					}
					writeText("//" + strings.ReplaceAll(genCommentBody(t, false), "\n", " "))
					ncomments++
					flags["line-comment"] = true
					return // nothing may follow a line comment but the newline
				}
				writeText(" ")
				wrote = true
			}
		}
	}
	out := make([]lexref.Tok, 0, len(toks))
	var prevprev lexer.TokenType
	for i := range toks {
		var a *c11Tok
		if i > 0 {
			a = &toks[i-1]
		}
		sep(prevprev, a, &toks[i])
		if a != nil {
			prevprev = a.Type
		}
		// position in the normalised text
		s := norm.String()
		row := 1 + strings.Count(s, "\n")
		col := len(s) - strings.LastIndexByte(s, '\n')
		tk := toks[i].Tok
		tk.Row, tk.Col = row, col
		out = append(out, tk)
		writeText(tk.Text)
	}
	if len(toks) > 0 {
		sep(prevprev, &toks[len(toks)-1], nil)
	}
	if ncomments >= 2 {
		flags["two-or-more-comments"] = true
	}
	fl := []string{}
	for k := range flags {
		fl = append(fl, k)
	}
	sortStrings(fl)
	return act.String(), out, fl
}

// c11Compare returns "" if got matches want (+EOF); otherwise a description and a signature.
func c11Compare(src string, want []lexref.Tok, got []lexer.Token, err error) (string, rep.Sig) {
	if err != nil {
		return fmt.Sprintf("Tokenize returned error %q for a valid token sequence", err.Error()), rep.Sig{"field": "error", "expect": "tokens"}
	}
	for i, w := range want {
		if i >= len(got) {
			return fmt.Sprintf("token %d missing: want %s %q", i, typeName(w.Type), w.Value), rep.Sig{"field": "missing", "expect": typeName(w.Type)}
		}
		g := got[i]
		field := ""
		switch {
		case g.Type() != w.Type:
			field = "type"
		case g.Value() != w.Value:
			field = "value"
		case g.Row() != w.Row:
			field = "row"
		case g.Column() != w.Col:
			field = "column"
		}
		if field != "" {
			prev := "start"
			if i > 0 {
				prev = typeName(want[i-1].Type)
				if strings.Contains(want[i-1].Text, "\n") && want[i-1].Type != lexer.NEWLINE {
					prev += "-multiline"
				}
			}
			return fmt.Sprintf("token %d: want %s %q at %d:%d, got %s %q at %d:%d", i, typeName(w.Type), w.Value, w.Row, w.Col, typeName(g.Type()), g.Value(), g.Row(), g.Column()),
				rep.Sig{"field": field, "expect": typeName(w.Type), "got": typeName(g.Type()), "after": prev}
		}
	}
	if len(got) != len(want)+1 || got[len(got)-1].Type() != lexer.EOF {
		return fmt.Sprintf("expected exactly one EOF after %d tokens, got %d tokens in total", len(want), len(got)), rep.Sig{"field": "eof"}
	}
	return "", nil
}

func init() {
	replayFuncs["lex"] = func(raw json.RawMessage) (bool, string) {
		var c c11Case
		json.Unmarshal(raw, &c)
		got, err := safeTokenize(c.Source)
		if c.WantErr {
			if err == nil {
				return false, "Tokenize accepted a malformed input: " + c.Note
			}
			return true, ""
		}
		msg, _ := c11Compare(c.Source, c.Expect, got, err)
		return msg == "", msg
	}
}

func TestC11(t *testing.T) {
	r, e := start(t, "C11",
		"random token lists (identifiers incl. keyword-prefixed ones, keywords, integers, interpreted/raw strings with escapes and UTF-8, all punctuation, newlines) rendered with random legal separators (blanks, tabs, block/line comments, LF/CRLF/mixed); non-trivial = rendering has >=2 comments, or a multi-line token/comment before a later token, or a keyword-prefixed identifier, or a string with an escape/non-ASCII byte; distinct by source text. Plus malformed inputs (unterminated strings, unknown characters, invalid escapes) that must be rejected.",
		[]string{"a '-' directly followed by a digit right after an operand (a-1) is not generated here (C12 owns it)", "float-looking text (1.5) is not generated: floats are outside the language", "columns are counted in bytes, as Go does", "position of the EOF token is not asserted"})
	defer r.Flush()

	// deterministic regression inputs named by the property statement (run in every shard 0)
	if e.Shard == 0 {
		fixed := []struct{ src, note string }{
			{"trueish := 3", "identifier with bool prefix"},
			{"falsey := 1\nnilx := 2\nformat := 3", "identifiers with keyword prefixes"},
			{"/* a */ print(\"one\") /* b */", "two block comments around code"},
			{"print(\"é\")", "non-ASCII in string"},
			{"x := \"\\x41\\101\\u00e9\"", "hex, octal and unicode escapes"},
			{"s := `a\nb`\nprint(s) x", "token after multi-line raw string"},
			{"a /* c */ b", "column after inline block comment"},
			{"a /* c\n d */ b", "column after multi-line block comment"},
		}
		// a minus directly in front of a digit: a sign after everything that cannot end an operand, the binary operator after
		// everything that can (every token kind on the left, with and without blanks)
		for _, left := range []string{"a", "a1", "1", "10", "\"s\"", "`r`", "true", "false", "nil", "f(x)", "(a)", "a[i]", "a[1]", "s[1:2]", "len(s)", "[]int{1}[0]",
			"(", "[", "{", ",", "=", ":=", "+", "-", "*", "/", "%", "==", "!=", "<", "<=", ">", ">=", "&&", "||", "!", ":", "return", "case", "+=", "-=", "print(", "\n"} {
			for _, mid := range []string{"-1", " -1", "- 1", " - 1", "-10", "-a", "--1", "- -1", "-1-1", "-1 -1"} {
				fixed = append(fixed, struct{ src, note string }{"x " + left + mid + " y", "minus in front of a digit"})
			}
		}
		for _, f := range fixed {
			want, _, lerr := lexref.Lex(f.src)
			if lerr != nil {
				r.HarnessError("lexref rejects fixed input %q: %v", f.src, lerr)
				continue
			}
			got, err := safeTokenize(f.src)
			r.Eval()
			r.NonTrivial(f.src, nil)
			if msg, sig := c11Compare(f.src, want, got, err); msg != "" {
				sig["fixed"] = f.note
				r.Violate(sig, f.note+": "+msg+"\nsource: "+fmt.Sprintf("%q", f.src), c11Case{Kind: "lex", Property: "C11", Source: f.src, Expect: want, Note: f.note})
			}
		}
	}

	checkRapid(t, r, func(t *rapid.T) {
		switch mode := rapid.IntRange(0, 9).Draw(t, "mode"); mode {
		case 0:
			c11Negative(t, r)
			return
		case 1, 2:
			c11Soup(t, r)
			return
		}
		n := rapid.IntRange(1, 30).Draw(t, "ntok")
		toks := make([]c11Tok, 0, n)
		flags := []string{}
		var prev lexer.TokenType
		for i := 0; i < n; i++ {
			tk, fl := genC11Token(t, prev)
			toks = append(toks, tk)
			flags = append(flags, fl...)
			prev = tk.Type
		}
		src, want, rflags := c11Render(t, toks)
		flags = append(flags, rflags...)
		// self-consistency of the reference grammar with the renderer (harness bug otherwise)
		rt, amb, rerr := lexref.Lex(src)
		if rerr != nil || amb || len(rt) != len(want) {
			r.Discard("lexref-disagrees")
			t.Skip("renderer/lexref disagreement")
		}
		for i := range rt {
			if rt[i] != want[i] {
				r.Discard("lexref-disagrees")
				r.Note("lexref and renderer disagree on %q token %d: %+v vs %+v", src, i, rt[i], want[i])
				t.Skip("harness disagreement")
			}
		}
		r.Eval()
		r.Class(flags...)
		nontrivial := false
		for _, f := range flags {
			switch f {
			case "two-or-more-comments", "multi-line-comment", "multi-line-raw-string", "keyword-prefix-ident", "escape-simple", "escape-xHH", "escape-octal", "escape-unicode", "non-ascii-in-string":
				nontrivial = true
			}
		}
		if nontrivial {
			r.NonTrivial(src, map[string]any{"source": src, "tokens": len(want)})
		}
		got, err := safeTokenize(src)
		if msg, sig := c11Compare(src, want, got, err); msg != "" {
			r.FailCase(t, sig, msg+"\nsource: "+fmt.Sprintf("%q", src), c11Case{Kind: "lex", Property: "C11", Source: src, Expect: want})
		}
	})
}

var reFloatish = regexp.MustCompile(`[0-9]\.[0-9]`)

// c11Soup: arbitrary concatenations of lexeme fragments. The reference grammar decides: if it splits the
// text, Tokenize must return the same tokens; if it rejects the text, Tokenize must reject it too.
func c11Soup(t *rapid.T, r *rep.R) {
	n := gen.Uniform(1, 25).Draw(t, "npieces")
	var sb strings.Builder
	for i := 0; i < n; i++ {
		sb.WriteString(c13Dict[gen.Uniform(0, len(c13Dict)-1).Draw(t, "piece")])
		if gen.Uniform(0, 3).Draw(t, "glue") == 0 {
			sb.WriteByte(' ')
		}
	}
	src := sb.String()
	if reFloatish.MatchString(src) || strings.Contains(src, "\r") && !strings.Contains(src, "\r\n") {
		t.Skip("float-looking text / lone CR placement: outside the property")
	}
	if !utf8.ValidString(src) {
		t.Skip("source is not valid UTF-8: Go itself rejects such text, the value of such a literal is unspecified")
	}
	want, amb, lerr := lexref.Lex(src)
	if amb {
		t.Skip("minus-digit after an operand: C12 owns it")
	}
	if lerr != nil && strings.Contains(lerr.Error(), "unterminated block comment") {
		t.Skip("unterminated block comment: unspecified")
	}
	got, err := safeTokenize(src)
	r.Eval()
	r.Class("soup")
	r.NonTrivial(src, nil)
	if lerr != nil {
		if err == nil {
			r.FailCase(t, rep.Sig{"field": "no-error", "neg": "soup"}, fmt.Sprintf("Tokenize accepted %q, which the token grammar rejects (%v)", src, lerr),
				c11Case{Kind: "lex", Property: "C11", Source: src, WantErr: true, Note: "soup: " + lerr.Error()})
		}
		return
	}
	if msg, sig := c11Compare(src, want, got, err); msg != "" {
		sig["soup"] = "yes"
		r.FailCase(t, sig, msg+"\nsource: "+fmt.Sprintf("%q", src), c11Case{Kind: "lex", Property: "C11", Source: src, Expect: want})
	}
}

// c11Negative: a valid rendering with one malformed lexeme injected must be rejected.
func c11Negative(t *rapid.T, r *rep.R) {
	prefix := rapid.SampledFrom([]string{"", "x := 1\n", "print(\"a\") ", "/* c */ ", "a + "}).Draw(t, "prefix")
	kind := rapid.SampledFrom([]string{"unterminated-string", "unterminated-raw", "unknown-char", "bad-escape", "lone-cr", "high-byte"}).Draw(t, "negkind")
	var bad string
	switch kind {
	case "unterminated-string":
		bad = `"abc` + rapid.SampledFrom([]string{"", ` \"`, " x", "\n"}).Draw(t, "tail")
	case "unterminated-raw":
		bad = "`abc" + rapid.SampledFrom([]string{"", "\n", ` "`}).Draw(t, "tail")
	case "unknown-char":
		bad = rapid.SampledFrom([]string{"#", "$", "?", "\\", "~", "^", "'", "& "}).Draw(t, "ch") + rapid.SampledFrom([]string{"", " x", "\n"}).Draw(t, "tail")
	case "bad-escape":
		bad = `"` + rapid.SampledFrom([]string{`\q`, `\x4`, `\'`, `\400`, `\u12`, `\U0011ffff`, `\xZZ`, `\8`, "\\\n", "a\\\nb", "\\\r\n", "\\\t", "\\ ", "\\é"}).Draw(t, "esc") + `"`
	case "lone-cr":
		bad = "\rx"
	case "high-byte":
		bad = rapid.SampledFrom([]string{"é", "\xff", "\x80x"}).Draw(t, "hb")
	}
	src := prefix + bad
	if !utf8.ValidString(src) && kind != "high-byte" {
		t.Skip()
	}
	if _, _, lerr := lexref.Lex(src); lerr == nil {
		r.HarnessError("lexref accepts malformed input %q", src)
		t.Skip()
	}
	r.Eval()
	r.Class("negative-" + kind)
	r.NonTrivial(src, nil)
	_, err := safeTokenize(src)
	if err == nil {
		r.FailCase(t, rep.Sig{"field": "no-error", "neg": kind}, fmt.Sprintf("Tokenize accepted malformed input %q (%s)", src, kind),
			c11Case{Kind: "lex", Property: "C11", Source: src, WantErr: true, Note: kind})
	}
}
