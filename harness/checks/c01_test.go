package checks

import (
	"testing"

	"pgregory.net/rapid"
	"verif/harness/gen"
)

// C01 — Bash target preserves scalar expression and control-flow semantics.
func c01Cfg(thorough bool) gen.Cfg {
	c := gen.Cfg{MaxStmts: 22, MaxDepth: 4, ExprDepth: 4, Panics: true, Wide: true, LoopBudget: 24, ErrSpell: true, BareExpr: true}
	if thorough {
		c.MaxStmts, c.MaxDepth, c.ExprDepth, c.LoopBudget = 50, 6, 5, 60
	}
	return c
}

func c01NonTrivial(tags map[string]int, ev map[string]int) bool {
	fam := 0
	for _, grp := range [][]string{{"add", "mul", "div", "mod"}, {"cmp-int", "cmp-string", "cmp-bool"}, {"and", "or", "not"}, {"concat", "itoa"}} {
		for _, k := range grp {
			if tags[k] > 0 {
				fam++
				break
			}
		}
	}
	ctrl := tags["if"] > 0 || tags["loop"] > 0 || tags["switch-form-0"]+tags["switch-form-1"]+tags["switch-form-2"] > 0
	dyn := ev["loop-2-iterations"] > 0 || (ev["if-taken"] > 0 && (ev["else-taken"] > 0 || ev["if-none-taken"] > 0 || ev["elif-taken"] > 0)) || tags["nested-loop"] > 0
	return fam >= 2 && ctrl && dyn
}

func TestC01(t *testing.T) {
	r, e := start(t, "C01",
		"typed scalar programs (int/bool/string; arithmetic, comparison, logical, negation, grouping with minimal parentheses; all definition forms; =, op=, ++/--; if/else-if/else; the three switch forms; every for-form; break/continue; print/itoa/panic) generated from an own AST and compared with an independent reference interpreter: exact stdout, exit status, empty stderr, and acceptance. Non-trivial = at least two operator families and a control construct whose outcome differs between two dynamic evaluations (or a loop running twice, or nested loops); distinct by source text. A third of the programs (by a hash of the text) additionally run as the text of an imported file (same output expected).",
		[]string{"panic(s) prints 'panic: s' on stdout and exits with status 1 (the constant both back-ends emit)", "strings use the shell-neutral alphabet [A-Za-z0-9_.,:/=+@#] plus single inner blanks (C08 owns every other character)", "excluded as undefined: division/modulo by zero, break inside switch, := redeclaring an outer variable, side effects in a switch tag", "reference interpreter = Go semantics with the README's eager condition evaluation"})
	defer r.Flush()
	runGoCrossValidation(r, e, e.Pick(8, 60)) // self-test of the oracle against the Go toolchain
	runSweep(r, e, "C01", c01SweepPrograms(), "operator-pairs")
	cfg := c01Cfg(e.Thorough())
	maxSteps := e.Pick(1500, 6000)
	checkRapid(t, r, func(t *rapid.T) {
		p, tags := gen.Program(t, cfg)
		diffProgram(t, r, p, diffOpts{Property: "C01", MaxSteps: maxSteps, Tags: tags, NonTrivial: c01NonTrivial})
	})
}
