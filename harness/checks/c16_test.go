package checks

import (
	"crypto/sha256"
	"encoding/json"
	"fmt"
	"math/big"
	"os"
	"path/filepath"
	"regexp"
	"strings"
	"testing"
	"unicode"

	"pgregory.net/rapid"
	"verif/harness/batlint"
	"verif/harness/gen"
	"verif/harness/rep"
	"verif/harness/run"
	"verif/harness/ts"
)

// C16 — every emitted script is well-formed for its interpreter.

type formCase struct {
	Kind     string            `json:"kind"` // "wellformed"
	Property string            `json:"property"`
	Files    map[string]string `json:"files"`
	Main     string            `json:"main"`
}

var reFuncName = regexp.MustCompile(`(?m)^\s*func\s+([A-Za-z_][A-Za-z0-9_]*)`)
var reImportPath = regexp.MustCompile(`"([A-Za-z0-9_./]+)"`)

// userFunctions returns the labels the program's own functions get in the Batch script.
func userFunctions(files map[string]string, main string) map[string]bool {
	out := map[string]bool{}
	// every decoration the emitter may put around a user function name (prefix u_, upper-case position suffix)
	variants := func(name string) {
		out[strings.ToLower(name)] = true
		out[strings.ToLower(name)+"_"+caseCode(name)] = true
	}
	for _, m := range reFuncName.FindAllStringSubmatch(files[main], -1) {
		variants(m[1])
		variants("u_" + m[1])
	}
	add := func(content string) {
		h := sha256.Sum256([]byte(content))
		prefix := fmt.Sprintf("%x", h[:])[0:7]
		for _, m := range reFuncName.FindAllStringSubmatch(content, -1) {
			for _, pre := range []string{"", "u_"} {
				variants(pre + prefix + "_" + m[1])
				variants(pre + "m" + prefix + "_" + m[1])
			}
		}
	}
	for name, content := range files {
		if name != main {
			add(content)
		}
	}
	// std files next to the test binary
	exe, _ := os.Executable()
	for _, std := range []string{"strings", "os"} {
		if strings.Contains(files[main], `"`+std+`"`) {
			if b, err := os.ReadFile(filepath.Join(filepath.Dir(exe), "std", std+".tsh")); err == nil {
				add(string(b))
			}
		}
	}
	return out
}

// caseCode is the hexadecimal bitmap of the upper-case letter positions of name.
func caseCode(name string) string {
	n := new(big.Int)
	for i, r := range name {
		if unicode.IsUpper(r) {
			n.SetBit(n, i, 1)
		}
	}
	return n.Text(16)
}

// checkWellFormed returns (backend, rule, message) of the first problem, or "".
func checkWellFormed(c formCase) (string, string, string) {
	b := run.TranspileSrc(c.Files, c.Main, run.Bash)
	if !b.Accepted() {
		return "bash", "rejected", "program was not translated: " + b.ErrText()
	}
	if ok, msg := run.BashSyntaxOK(b.Script); !ok {
		return "bash", "syntax", "bash -n: " + msg
	}
	w := run.TranspileSrc(c.Files, c.Main, run.Batch)
	if !w.Accepted() {
		return "batch", "rejected", "program was not translated for Batch: " + w.ErrText()
	}
	if issues := batlint.Lint(w.Script, userFunctions(c.Files, c.Main)); len(issues) > 0 {
		return "batch", issues[0].Rule, issues[0].Msg
	}
	return "", "", ""
}

func init() {
	replayFuncs["wellformed"] = func(raw json.RawMessage) (bool, string) {
		var c formCase
		json.Unmarshal(raw, &c)
		be, rule, msg := checkWellFormed(c)
		return be == "", be + "/" + rule + ": " + msg
	}
}

func TestC16(t *testing.T) {
	r, e := start(t, "C16",
		"whole-language programs: the constructs of C01-C03 plus input, read, write, exists, program calls and pipelines (names as identifiers and as string literals, captured or not), copy, empty blocks of every kind, else-if after nested blocks, nesting up to 6, up to 8 functions, imports of strings/os, random import graphs of 2-5 files (the generator of C09) and programs split over two or three files (a file reached along two import paths, private functions and globals and top-level code in the imported files); scripts are not executed. Oracle: bash -n accepts the Bash script silently; a structural reader of the Batch text (by shape: routines = 'goto :M' + label ... ':M', loops = 'head ... goto head / ) / end', ifs = 'goto X / ) / X') checks balanced parentheses, every goto/call target defined, no label twice, helper routines present exactly when called from elsewhere, and every loop/branch jump inside and innermost. Non-trivial = an empty block, nesting >= 3, or >= 2 helper-requiring builtins; distinct by source text.",
		[]string{"Batch text is read structurally, not executed (C05 runs it under a model)", "strings use the neutral alphabet, so quotes in emitted lines delimit data reliably"})
	defer r.Flush()
	cfg := gen.Cfg{MaxStmts: 30, MaxDepth: 5, ExprDepth: 3, Funcs: true, MaxFuncs: 6, Slices: true, StrOps: true, Panics: true, LoopBudget: 1000, IO: true, BigSlices: true, ErrSpell: true, BareExpr: true}
	if e.Thorough() {
		cfg.MaxStmts, cfg.MaxDepth, cfg.MaxFuncs = 60, 6, 8
	}
	if e.Shard == 0 {
		fixed := []string{
			"import \"strings\"\nprint(strings.Contains(\"ab\", \"b\"))\nfor i := 0; i < 2; i++ {\n}\nfor j := 0; j < 2; j++ {\n}\n",
			"import (\n\t\"strings\"\n\t\"os\"\n)\nparts := strings.Split(\"a,b\", \",\")\nprint(os.Shell(), parts[0])\n",
			"s := []int{1}\nprint(1)\n",
			"var d []int\ns := []int{1}\nprint(copy(d, s))\n",
			"for {\n\tfor {\n\t\tbreak\n\t}\n\tbreak\n}\nfor {\n\tfor {\n\t\tbreak\n\t}\n\tbreak\n}\n",
			"x := 0\nfor i := 0; i < 2; i++ {\n\tfor j := 0; j < 2; j++ {\n\t}\n\tif x == 0 {\n\t\tcontinue\n\t}\n}\n",
			"func f() {\n}\nf()\nif true {\n} else if false {\n} else {\n}\nswitch 1 {\ncase 1:\ndefault:\n}\nfor false {\n}\n",
		}
		for _, src := range fixed {
			c := formCase{Kind: "wellformed", Property: "C16", Files: map[string]string{"main.tsh": src}, Main: "main.tsh"}
			r.Eval()
			r.NonTrivial(src, nil)
			if be, rule, msg := checkWellFormed(c); be != "" {
				r.Violate(rep.Sig{"backend": be, "rule": rule, "fixed": rep.Hash(src)}, msg+"\n"+src, c)
			}
		}
	}
	// helper isolation: each helper-requiring construct alone, as statement / value, at top level,
	// inside a function, and inside a loop inside a function ("each helper routine exactly when it is used")
	iso := []struct{ name, decl, use string }{
		{"slice-literal", "", "s := []int{1, 2}"},
		{"element-assign", "var s []int", "s[2] = 5"},
		{"element-read", "s := []string{\"a\"}", "x := s[0]"},
		{"len-slice", "s := []bool{true}", "x := len(s)"},
		{"len-string", "w := \"abc\"", "x := len(w)"},
		{"copy-statement", "s := []int{1, 2}\nvar d []int", "copy(d, s)"},
		{"copy-value", "s := []int{1, 2}\nvar d []int", "n := copy(d, s)"},
		{"string-index", "w := \"abc\"", "x := w[1]"},
		{"substring", "w := \"abc\"", "x := w[0:2]"},
		{"range-slice", "s := []int{1, 2}", "for i, v := range s {\n}"},
		{"range-string", "w := \"ab\"", "for i, v := range w {\n}"},
		{"print", "", "print(1, \"a\")"},
		{"print-empty", "", "print()"},
		{"panic", "", "panic(\"p\")"},
		{"input", "", "x := input()"},
		{"input-statement", "", "input(\"p\")"},
		{"read", "", "x := read(\"f.txt\")"},
		{"write", "", "write(\"f.txt\", \"d\")"},
		{"write-append", "ab := true", "write(\"f.txt\", \"d\", ab)"},
		{"exists", "", "x := exists(\"f.txt\")"},
		{"app-statement", "", "@ls(\"-l\")"},
		{"app-pipe", "", "@ls() | @sort(\"-r\")"},
		{"app-capture", "", "o, e, c := @ls() | @sort()"},
		{"itoa", "k := 3", "x := itoa(k)"},
		{"concat", "w := \"abc\"", "x := w + \"d\""},
		{"compare-string", "w := \"abc\"", "x := w == \"d\""},
		{"multi-assign", "a := 1\nb := 2", "a, b = b, a"},
		{"switch", "k := 3", "switch k {\ncase 1:\ndefault:\n}"},
		{"if-elif", "k := 3", "if k == 1 {\n} else if k == 2 {\n} else {\n}"},
		{"for-break-continue", "k := 3", "for i := 0; i < k; i++ {\n\tif i == 1 {\n\t\tcontinue\n\t}\n\tbreak\n}"},
	}
	wraps := []struct{ name, pre, post string }{
		{"top", "", ""},
		{"function", "func wrap() {\n", "}\nwrap()\n"},
		{"loop-in-function", "func wrap() {\nfor q := 0; q < 1; q++ {\n", "}\n}\nwrap()\n"},
		{"after-sibling-loop", "for q := 0; q < 1; q++ {\n}\nfor q2 := 0; q2 < 1; q2++ {\n", "}\n"},
	}
	nIso := 0
	for i, it := range iso {
		for j, w := range wraps {
			nIso++
			if !e.Mine(i*len(wraps) + j) {
				continue
			}
			src := ""
			if it.decl != "" {
				src = it.decl + "\n"
			}
			src += w.pre + it.use + "\n" + w.post
			c := formCase{Kind: "wellformed", Property: "C16", Files: map[string]string{"main.tsh": src}, Main: "main.tsh"}
			r.Eval()
			r.Class("isolated:" + it.name)
			r.NonTrivial(src, nil)
			if be, rule, msg := checkWellFormed(c); be != "" {
				r.Violate(rep.Sig{"backend": be, "rule": rule, "isolated": it.name, "wrap": w.name}, it.name+" ("+w.name+"): "+msg+"\n"+src, c)
			}
		}
	}
	r.SetExtra("n_isolation_programs", 0)

	checkRapid(t, r, func(t *rapid.T) {
		if gen.Uniform(0, 9).Draw(t, "import-graph") == 0 {
			// a random import graph of 2-5 files whose libraries have private functions, globals and top-level code that
			// calls functions (every function an emitted call names must survive the removal of unused functions)
			g := c09BuildGraph(t)
			files := ts.Sources(g.prog)
			c := formCase{Kind: "wellformed", Property: "C16", Files: files, Main: "main.tsh"}
			r.Eval()
			r.Class("import-graph")
			r.NonTrivial(mainSource(files, "main.tsh"), nil)
			if be, rule, msg := checkWellFormed(c); be != "" {
				r.FailCase(t, rep.Sig{"backend": be, "rule": rule, "shape": "import-graph"}, msg+"\n--- sources\n"+mainSource(files, "main.tsh"), c)
			}
			return
		}
		if gen.Uniform(0, 4).Draw(t, "multi-file") == 0 {
			// a program over several files: functions moved into one or two imported files (with two, the second is reached
			// along two import paths); every file keeps private names and top-level code
			if sp, ok := c09BuildSplit(t); ok {
				files := ts.Sources(sp.prog)
				c := formCase{Kind: "wellformed", Property: "C16", Files: files, Main: "main.tsh"}
				r.Eval()
				r.Class("multi-file")
				if sp.two {
					r.Class("multi-file:file-reached-along-two-paths")
				}
				r.NonTrivial(mainSource(files, "main.tsh"), nil)
				if be, rule, msg := checkWellFormed(c); be != "" {
					r.FailCase(t, rep.Sig{"backend": be, "rule": rule, "shape": "multi-file"}, msg+"\n--- sources\n"+mainSource(files, "main.tsh"), c)
				}
				return
			}
		}
		stmts, tags := gen.Stmts(t, cfg)
		renamed := false
		if gen.Uniform(0, 4).Draw(t, "spelled-like-emitted-names") == 0 {
			// identifiers spelled like the names the Batch script itself uses (one with an upper-case letter, another one with
			// the exact emitted spelling of some identifier): labels and variables must stay apart
			if rs, desc := renameLikeEmitted(t, stmts); desc != "" {
				stmts = rs
				renamed = true
				r.Class("identifiers-spelled-like-emitted-names")
			}
		}
		src := ts.StmtsString(stmts)
		c := formCase{Kind: "wellformed", Property: "C16", Files: map[string]string{"main.tsh": src}, Main: "main.tsh"}
		r.Eval()
		for k := range tags {
			if strings.HasPrefix(k, "io-") || strings.HasPrefix(k, "app-") || k == "copy" || k == "nested-loop" || k == "elif" || k == "func" {
				r.Class(k)
			}
		}
		helperish := 0
		for _, k := range []string{"io-read", "io-write", "io-exists", "io-input", "app-capture", "copy", "slice-write", "len", "substr-ab", "str-index"} {
			if tags[k] > 0 {
				helperish++
			}
		}
		if strings.Contains(src, "{\n}") || strings.Contains(src, ":\n}") || tags["nested-loop"] > 0 || helperish >= 2 {
			r.NonTrivial(src, map[string]any{"source": src})
		}
		if be, rule, msg := checkWellFormed(c); be != "" {
			if renamed && rule == "rejected" {
				r.Class("renamed-program-rejected") // a renaming may be refused (C10); an accepted program must be well-formed
				return
			}
			r.FailCase(t, rep.Sig{"backend": be, "rule": rule}, msg+"\n"+src, c)
		}
	})
}
