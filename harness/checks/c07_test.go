package checks

import (
	"crypto/sha256"
	"fmt"
	"strings"
	"testing"

	"pgregory.net/rapid"
	"verif/harness/gen"
	"verif/harness/rep"
)

// C07 — names resolve lexically; out-of-scope or misplaced constructs are rejected.
// A random block tree (functions at top level, if/else-if/else, for, range, switch) gets a
// definition site and a use site; the lexical-scope model below predicts accept / reject.

type c7fn struct {
	name    string
	order   int
	returns bool
}

type c7blk struct {
	id     int
	parent *c7blk
	fn     *c7fn
	kind   string
	inLoop bool
	inSw   bool
	depth  int
}

type c7slot struct {
	order int
	blk   *c7blk
	// header != "": the slot stands for a variable defined by a construct header (for-init, range, parameter)
	header string
}

type c7item struct {
	slot  *c7slot
	open  string // line(s) opening a construct; "%H" is replaced by the header variable name when it is the definition site
	close string
}

type c7tree struct {
	items   []c7item
	slots   []*c7slot
	headers []*c7slot
	nblk    int
	norder  int
	nfn     int
	top     *c7blk
}

func (tr *c7tree) newBlk(parent *c7blk, kind string) *c7blk {
	tr.nblk++
	b := &c7blk{id: tr.nblk, parent: parent, kind: kind}
	if parent != nil {
		b.fn, b.inLoop, b.inSw, b.depth = parent.fn, parent.inLoop, parent.inSw, parent.depth+1
	}
	return b
}

func (tr *c7tree) addSlot(b *c7blk) {
	tr.norder++
	s := &c7slot{order: tr.norder, blk: b}
	tr.slots = append(tr.slots, s)
	tr.items = append(tr.items, c7item{slot: s})
}

func (tr *c7tree) line(s string) { tr.items = append(tr.items, c7item{open: s}) }

func (tr *c7tree) headerSlot(b *c7blk, name string) *c7slot {
	tr.norder++
	s := &c7slot{order: tr.norder, blk: b, header: name}
	tr.headers = append(tr.headers, s)
	return s
}

// genBlock fills block b with slots and nested constructs.
func (tr *c7tree) genBlock(t *rapid.T, b *c7blk, depth int, budget *int) {
	tr.addSlot(b)
	n := gen.Uniform(0, 3).Draw(t, "nconstructs")
	if depth >= 3 {
		n = gen.Uniform(0, 1).Draw(t, "nconstructs-deep")
	}
	for i := 0; i < n && *budget > 0; i++ {
		*budget--
		kinds := []string{"if", "ifelse", "for", "range", "switch", "forcond"}
		if b.kind == "top" {
			kinds = append(kinds, "func", "func", "funcret")
		}
		switch kinds[gen.Uniform(0, len(kinds)-1).Draw(t, "construct")] {
		case "if":
			tr.line("if cv {")
			tr.genBlock(t, tr.newBlk(b, "if"), depth+1, budget)
			tr.line("}")
		case "ifelse":
			tr.line("if cv {")
			tr.genBlock(t, tr.newBlk(b, "if"), depth+1, budget)
			tr.line("} else if cw {")
			tr.genBlock(t, tr.newBlk(b, "elif"), depth+1, budget)
			tr.line("} else {")
			tr.genBlock(t, tr.newBlk(b, "else"), depth+1, budget)
			tr.line("}")
		case "for":
			body := tr.newBlk(b, "for")
			body.inLoop = true
			body.inSw = false
			h := tr.headerSlot(body, fmt.Sprintf("h%d", body.id))
			tr.items = append(tr.items, c7item{open: "for %H := 0; %H < 1; %H++ {", slot: h})
			tr.genBlock(t, body, depth+1, budget)
			tr.line("}")
		case "forcond":
			body := tr.newBlk(b, "for")
			body.inLoop = true
			body.inSw = false
			tr.line("for cv {")
			tr.genBlock(t, body, depth+1, budget)
			tr.line("break")
			tr.line("}")
		case "range":
			body := tr.newBlk(b, "range")
			body.inLoop = true
			body.inSw = false
			h := tr.headerSlot(body, fmt.Sprintf("h%d", body.id))
			form := []string{"for %H := range lv {", "for %H, rv" + fmt.Sprint(body.id) + " := range lv {", "for ri" + fmt.Sprint(body.id) + ", %H := range lv {"}[gen.Uniform(0, 2).Draw(t, "range-form")]
			tr.items = append(tr.items, c7item{open: form, slot: h})
			tr.genBlock(t, body, depth+1, budget)
			tr.line("}")
		case "switch":
			tr.line("switch iv {")
			tr.line("case 1:")
			c1 := tr.newBlk(b, "case")
			c1.inSw = true
			tr.genBlock(t, c1, depth+1, budget)
			tr.line("default:")
			c2 := tr.newBlk(b, "case")
			c2.inSw = true
			tr.genBlock(t, c2, depth+1, budget)
			tr.line("}")
		case "func", "funcret":
			tr.nfn++
			tr.norder++
			f := &c7fn{name: fmt.Sprintf("fn%d", tr.nfn), order: tr.norder}
			body := tr.newBlk(b, "func")
			body.fn, body.inLoop, body.inSw = f, false, false
			h := tr.headerSlot(body, fmt.Sprintf("p%d", body.id))
			ret := ""
			if gen.Uniform(0, 1).Draw(t, "returns") == 1 {
				f.returns = true
				ret = " int"
			}
			tr.items = append(tr.items, c7item{open: "func " + f.name + "(%H int)" + ret + " {", slot: h})
			tr.genBlock(t, body, depth+1, budget)
			if f.returns {
				tr.line("return 0")
			}
			tr.line("}")
			tr.line(f.name + "(1)")
		}
		tr.addSlot(b)
	}
}

func isAncestor(a, b *c7blk) bool {
	for x := b; x != nil; x = x.parent {
		if x == a {
			return true
		}
	}
	return false
}

// visible: is the variable defined at d usable at u?
func c7visible(d, u *c7slot) bool {
	if u.order <= d.order || !isAncestor(d.blk, u.blk) {
		return false
	}
	if d.blk.fn == u.blk.fn {
		return true
	}
	// u is inside a function, d is not: only top-level (global) definitions made before the function definition are seen
	return d.blk.fn == nil && d.blk.kind == "top" && u.blk.fn != nil && d.order < u.blk.fn.order
}

const c07Prelude = "cv := true\ncw := false\niv := 1\nlv := []int{1, 2}\nfunc c7two() (int, int) {\n\treturn 1, 2\n}\n"

func (tr *c7tree) render(at map[*c7slot][]string, headerName map[*c7slot]string) string {
	var sb strings.Builder
	sb.WriteString(c07Prelude)
	for _, it := range tr.items {
		if it.open != "" {
			l := it.open
			if it.slot != nil {
				n := it.slot.header
				if hn, ok := headerName[it.slot]; ok {
					n = hn
				}
				l = strings.ReplaceAll(l, "%H", n)
			}
			sb.WriteString(l + "\n")
			continue
		}
		for _, l := range at[it.slot] {
			sb.WriteString(l + "\n")
		}
	}
	return sb.String()
}

func c7ctxName(s *c7slot) string {
	k := s.blk.kind
	if s.blk.fn != nil && k != "func" {
		k = "func/" + k
	}
	if s.header != "" {
		k += "-header"
	}
	return k
}

func c7relation(d, u *c7slot) string {
	switch {
	case d.blk == u.blk:
		return "same-block"
	case isAncestor(d.blk, u.blk):
		if d.blk.fn != u.blk.fn {
			return "into-function"
		}
		return "nested"
	case isAncestor(u.blk, d.blk):
		return "outer"
	case d.blk.fn != u.blk.fn:
		return "other-function"
	}
	return "sibling"
}

func TestC07(t *testing.T) {
	r, e := start(t, "C07",
		"random block trees (functions at top level, if/else-if/else, for with header variable, range with header variables, switch cases; depth <= 4) with one definition site (:=, var, for-init variable, range variable, parameter, function) and one use site (read, write, redefinition by := or var, call) placed at any statement boundary; plus break/continue/return/func placed at every boundary, duplicate functions/parameters, undefined names; an enumeration of value-returning functions (3 result signatures x 3 prefixes x 13 last-statement shapes incl. empty / comment-only bodies x used/unused) that can fall off their end; import-boundary cases (globals, locals and functions of an imported file seen from the importer and the reverse); every case is checked twice: as the entry file and as the text of an imported file. Oracle: lexical-scope model (visible from the definition to the end of its block and in nested blocks; function bodies see only globals defined before the function; no shadowing; functions usable after their top-level definition). Non-trivial = definition and use in different blocks; distinct by program text.",
		[]string{"shadowing an outer variable is treated as an error, as the property states (Go would allow it)", "a value-returning function must end with a return statement (if/else chains that both return are not asserted)", "accepted programs are not executed here (C01-C03 own the run-time semantics)"})
	defer r.Flush()
	_ = e

	// fixed negative / positive cases named by the property (shard 0)
	if e.Shard == 0 {
		fixed := []struct {
			src, expect, note string
		}{
			{"func f(a int, a int) {\n}\nf(1, 2)\n", "reject", "duplicate-parameter"},
			{"func f(a int, b int, a int) {\n}\nf(1, 2, 3)\n", "reject", "duplicate-parameter-not-adjacent"},
			{"func f(s string, n int, flag bool, s int) {\n}\nf(\"x\", 2, true, 3)\n", "reject", "duplicate-parameter-first-and-last-of-four"},
			{"func f(a int, b int, c int, b int, d int) {\n}\nf(1, 2, 3, 4, 5)\n", "reject", "duplicate-parameter-in-the-middle-of-five"},
			{"func f(a int, b int, c int) int {\nreturn a + b + c\n}\nprint(f(1, 2, 3))\n", "accept", "three-distinct-parameters"},
			{"func f() {\n}\nfunc f() {\n}\nf()\n", "reject", "duplicate-function"},
			{"func f() int {\nif cv {\nreturn 1\n}\n}\nprint(f())\n", "reject", "falls-off-end-after-if"},
			{"func f() int {\nreturn 1\nprint(2)\n}\nprint(f())\n", "reject", "last-statement-not-return"},
			{"func f() int {\nprint(2)\n}\nprint(f())\n", "reject", "no-return-at-all"},
			{"func f() int {\nprint(2)\nreturn 1\n}\nprint(f())\n", "accept", "ends-with-return"},
			{"func f() int {\nfor cv {\nreturn 2\n}\nreturn 1\n}\nprint(f())\n", "accept", "nested-and-final-return"},
			{"g()\nfunc g() {\n}\n", "reject", "call-before-definition"},
			{"func g() {\nh()\n}\nfunc h() {\n}\ng()\n", "reject", "call-of-later-function-inside-body"},
			{"undefinedfn()\n", "reject", "undefined-function"},
			{"print(undefinedvar)\n", "reject", "undefined-variable"},
			{"undefinedvar = 1\n", "reject", "assign-undefined"},
			{"undefinedvar++\n", "reject", "increment-undefined"},
			{"undefinedvar += 1\n", "reject", "compound-undefined"},
			{"iv, cv := 2, false\n", "reject", "no-new-variables"},
			{"na, na := 1, 2\nprint(na)\n", "reject", "same-name-twice-in-short-definition"},
			{"var na, na int\nprint(na)\n", "reject", "same-name-twice-in-var"},
			{"var na, nb, na = 1, 2, 3\nprint(na, nb)\n", "reject", "same-name-twice-in-var-with-values"},
			{"func two() (int, int) {\nreturn 1, 2\n}\nna, na := two()\nprint(na)\n", "reject", "same-name-twice-from-call"},
			{"for ri, ri := range lv {\nprint(ri)\n}\n", "reject", "same-name-twice-in-range-header"},
			{"func f() {\nna, na := 1, 2\nprint(na)\n}\nf()\n", "reject", "same-name-twice-in-function"},
			{"na, nb := 1, 2\nnb, nc := 3, 4\nprint(na, nb, nc)\n", "accept", "reuse-next-to-a-new-name"},
			// var never re-uses a name (only := may, next to a new one)
			{"var iv, nb int\nprint(iv, nb)\n", "reject", "var-group-with-an-existing-name"},
			{"var nb, iv = 1, 2\nprint(iv, nb)\n", "reject", "var-group-with-values-and-an-existing-name"},
			{"var nb, iv int = 1, 2\nprint(iv, nb)\n", "reject", "typed-var-group-with-an-existing-name"},
			{"func f(q int) {\nvar q, nb int\nprint(q, nb)\n}\nf(1)\n", "reject", "var-group-re-using-a-parameter"},
			{"if cv {\nvar iv, nb int\nprint(iv, nb)\n}\n", "reject", "var-group-shadowing-an-outer-name"},
			{"var na, nb int\nvar nc, nd = 1, 2\nprint(na, nb, nc, nd)\n", "accept", "var-groups-of-new-names"},
			{"func f(q int) {\nq := 2\n}\nf(1)\n", "reject", "parameter-redefined"},
			{"func f(q int) {\nprint(q)\n}\nf(1)\nprint(q)\n", "reject", "parameter-used-outside"},
			{"func f() {\nlv := 1\nprint(lv)\n}\nfunc g() {\nprint(lv)\n}\nf()\ng()\n", "reject", "local-of-other-function"},
			{"func g() {\nprint(lv)\n}\nfunc f() {\nlv := 1\ng()\n}\nf()\n", "reject", "caller-local-in-callee"},
		}
		for _, f := range fixed {
			src := c07Prelude + f.src
			c := verdictCase{Kind: "verdict", Property: "C07", Files: map[string]string{"main.tsh": src}, Main: "main.tsh", Expect: f.expect, Note: f.note}
			r.Eval()
			r.NonTrivial(src, nil)
			r.Class("fixed:" + f.expect)
			if kind, msg := checkVerdict(c); kind != "" {
				r.Violate(rep.Sig{"fixed": f.note, "kind": kind}, f.note+": "+msg+"\n"+f.src, c)
			} else if ci, ok := asImport(c); ok {
				if kind, msg := checkVerdict(ci); kind != "" {
					r.Violate(rep.Sig{"fixed": f.note, "kind": kind, "as-import": "yes"}, ci.Note+": "+msg+"\n"+f.src, ci)
				}
			}
		}
	}

	// import boundaries: names do not cross files except public functions through the alias
	if e.Shard == 0 {
		lib := "gl := 5\nfunc Pub() int {\n\tlocal := gl + 1\n\treturn local\n}\n"
		for _, ib := range []struct{ main, lib, expect, note string }{
			{"import l \"lib.tsh\"\nprint(l.Pub())\n", lib, "accept", "public-function-through-alias"},
			{"import l \"lib.tsh\"\nprint(l.Pub())\nprint(gl)\n", lib, "reject", "global-of-imported-file-read-in-importer"},
			{"import l \"lib.tsh\"\nprint(l.Pub())\ngl = 6\n", lib, "reject", "global-of-imported-file-written-in-importer"},
			{"import l \"lib.tsh\"\nprint(l.Pub())\nprint(l.gl)\n", lib, "reject", "global-of-imported-file-through-alias"},
			{"import l \"lib.tsh\"\nprint(l.Pub())\nprint(local)\n", lib, "reject", "local-of-imported-function-in-importer"},
			{"import l \"lib.tsh\"\ngl := 7\nprint(l.Pub(), gl)\n", lib, "accept", "same-name-defined-in-both-files"},
			{"import l \"lib.tsh\"\nmg := 1\nprint(l.Pub(), mg)\n", "func Pub() int {\n\treturn mg\n}\n", "reject", "global-of-importer-read-in-imported-function"},
			{"import l \"lib.tsh\"\nmg := 1\nprint(l.Pub(), mg)\n", "func Pub() int {\n\tmg = 2\n\treturn 1\n}\n", "reject", "global-of-importer-written-in-imported-function"},
			{"import l \"lib.tsh\"\nfunc mainfn() int {\n\treturn 1\n}\nprint(l.Pub(), mainfn())\n", "func Pub() int {\n\treturn mainfn()\n}\n", "reject", "function-of-importer-called-in-imported-file"},
			{"import l \"lib.tsh\"\nprint(l.Pub())\n", "func Pub() int {\n\treturn 1\n}\nprint(undefinedhere)\n", "reject", "undefined-name-in-imported-top-level-code"},
			// the name under which a global of the imported file lives in the script is no name of the importer
			{"import l \"lib.tsh\"\nprint(l.Pub(), @MANGLED@Gl)\n", "Gl := 5\nfunc Pub() int {\n\treturn Gl\n}\n", "reject", "mangled-name-of-imported-public-global-read"},
			{"import l \"lib.tsh\"\n@MANGLED@Gl = 7\nprint(l.Pub())\n", "Gl := 5\nfunc Pub() int {\n\treturn Gl\n}\n", "reject", "mangled-name-of-imported-public-global-written"},
			{"import l \"lib.tsh\"\n@MANGLED@gl++\nprint(l.Pub())\n", "gl := 5\nfunc Pub() int {\n\treturn gl\n}\n", "reject", "mangled-name-of-imported-private-global-incremented"},
			{"import l \"lib.tsh\"\nprint(@MANGLED@Pub())\n", "func Pub() int {\n\treturn 1\n}\n", "reject", "mangled-name-of-imported-function-called"},
			{"import l \"lib.tsh\"\nimport m \"lib2.tsh\"\nprint(l.Pub(), m.Other())\n", "func Pub() int {\n\treturn Other()\n}\n", "reject", "function-of-sibling-import-without-alias"},
		} {
			if strings.Contains(ib.main, "@MANGLED@") {
				h := sha256.Sum256([]byte(ib.lib))
				ib.main = strings.ReplaceAll(ib.main, "@MANGLED@", "m"+fmt.Sprintf("%x", h[:])[:7]+"_")
			}
			files := map[string]string{"main.tsh": ib.main, "lib.tsh": ib.lib, "lib2.tsh": "func Other() int {\n\treturn 2\n}\n"}
			c := verdictCase{Kind: "verdict", Property: "C07", Files: files, Main: "main.tsh", Expect: ib.expect, Note: "import-boundary:" + ib.note}
			r.Eval()
			r.NonTrivial(ib.main+ib.lib, nil)
			r.Class("import-boundary:" + ib.expect)
			if kind, msg := checkVerdict(c); kind != "" {
				r.Violate(rep.Sig{"import-boundary": ib.note, "kind": kind}, c.Note+": "+msg+"\n--- main\n"+ib.main+"--- lib\n"+ib.lib, c)
			}
		}
	}

	// private names: a function of an imported file is usable through the alias exactly if its name starts with an upper-case
	// letter - whatever else the name contains (an underscore or a digit is no upper-case letter)
	if e.Shard == 1%e.NShards {
		for _, sp := range []struct {
			name   string
			public bool
		}{{"priv", false}, {"p", false}, {"pUB", false}, {"_hidden", false}, {"_Hidden", false}, {"__x", false}, {"x9", false}, {"p_Q", false}, {"_9", false},
			{"Pub", true}, {"P", true}, {"P9", true}, {"P_q", true}, {"PUB", true}, {"Zz", true}} {
			libSrc := "func " + sp.name + "() int {\n\treturn 41\n}\nfunc Wrap() int {\n\treturn " + sp.name + "() + 1\n}\n"
			for _, use := range []struct{ main, note, expect string }{
				{"import l \"lib.tsh\"\nprint(l.Wrap())\n", "used-in-its-own-file", "accept"},
				{"import l \"lib.tsh\"\nprint(l." + sp.name + "())\n", "called-through-the-alias", map[bool]string{true: "accept", false: "reject"}[sp.public]},
				{"import l \"lib.tsh\"\nx := l." + sp.name + "() + l.Wrap()\nprint(x)\n", "called-through-the-alias-as-operand", map[bool]string{true: "accept", false: "reject"}[sp.public]},
				{"import l \"lib.tsh\"\nprint(" + sp.name + "())\n", "called-without-alias", "reject"},
			} {
				c := verdictCase{Kind: "verdict", Property: "C07", Files: map[string]string{"main.tsh": use.main, "lib.tsh": libSrc}, Main: "main.tsh", Expect: use.expect, Note: "private-name:" + sp.name + " " + use.note}
				r.Eval()
				r.NonTrivial(use.main+libSrc, nil)
				r.Class("private-name:" + use.expect)
				if kind, msg := checkVerdict(c); kind != "" {
					r.Violate(rep.Sig{"private-name": use.note, "public": fmt.Sprint(sp.public), "kind": kind}, c.Note+": "+msg+"\n--- main\n"+use.main+"--- lib\n"+libSrc, c)
				}
			}
		}
	}

	// enumeration: value-returning functions x body shapes. Every shape whose end can be reached without a return is rejected;
	// a body ending in a return statement is accepted.
	{
		type shape struct{ name, body string }
		rets := []struct{ sig, ret, use string }{
			{"int", "return 1", "print(f())"},
			{"(int, string)", "return 1, \"s\"", "ra, rb := f()\nprint(ra, rb)"},
			{"error", "return nil", "print(f())"},
		}
		pres := []shape{{"none", ""}, {"print", "print(7)\n"}, {"nested-return", "if cv {\n@RET\n}\n"}}
		lasts := []struct {
			name, body, expect string
		}{
			{"empty", "", "reject"},
			{"comment-only", "// nothing\n", "reject"},
			{"blank-lines", "\n\n", "reject"},
			{"print", "print(2)\n", "reject"},
			{"assignment", "iv = 3\n", "reject"},
			{"definition", "lz := 3\n", "reject"},
			{"if-return", "if cv {\n@RET\n}\n", "reject"},
			{"if-elif-return", "if cv {\n@RET\n} else if iv == 1 {\n@RET\n}\n", "reject"},
			{"for-cond-return", "for cv {\n@RET\n}\n", "reject"},
			{"for-clause-return", "for k := 0; k < 2; k++ {\n@RET\n}\n", "reject"},
			{"switch-no-default", "switch iv {\ncase 1:\n@RET\n}\n", "reject"},
			{"return-then-print", "@RET\nprint(2)\n", "reject"},
			{"return", "@RET\n", "accept"},
		}
		n := 0
		for _, rt := range rets {
			for _, pre := range pres {
				for _, last := range lasts {
					for _, used := range []bool{true, false} {
						n++
						if !e.Mine(n) {
							continue
						}
						body := strings.ReplaceAll(pre.body+last.body, "@RET", rt.ret)
						src := c07Prelude + "func f() " + rt.sig + " {\n" + body + "}\n"
						if used {
							src += rt.use + "\n"
						}
						note := fmt.Sprintf("end-of-function:%s/%s/%s/used=%v", rt.sig, pre.name, last.name, used)
						c := verdictCase{Kind: "verdict", Property: "C07", Files: map[string]string{"main.tsh": src}, Main: "main.tsh", Expect: last.expect, Note: note}
						r.Eval()
						r.NonTrivial(src, nil)
						r.Class("end-of-function:" + last.expect)
						if kind, msg := checkVerdict(c); kind != "" {
							r.Violate(rep.Sig{"end-of-function": last.name, "pre": pre.name, "kind": kind}, note+": "+msg+"\n"+src, c)
						} else if ci, ok := asImport(c); ok {
							if kind, msg := checkVerdict(ci); kind != "" {
								r.Violate(rep.Sig{"end-of-function": last.name, "pre": pre.name, "kind": kind, "as-import": "yes"}, ci.Note+": "+msg+"\n"+src, ci)
							}
						}
					}
				}
			}
		}
	}

	checkRapid(t, r, func(t *rapid.T) {
		tr := &c7tree{}
		tr.top = tr.newBlk(nil, "top")
		budget := gen.Uniform(2, 7).Draw(t, "budget")
		tr.genBlock(t, tr.top, 0, &budget)
		family := gen.Uniform(0, 9).Draw(t, "family")
		at := map[*c7slot][]string{}
		hn := map[*c7slot]string{}
		var expect, note string
		sig := rep.Sig{}
		nontrivial := false
		switch {
		case family <= 5: // variable definition x use
			// definition site: an ordinary slot or a construct header
			var d *c7slot
			if len(tr.headers) > 0 && gen.Uniform(0, 3).Draw(t, "header-def") == 0 {
				d = tr.headers[gen.Uniform(0, len(tr.headers)-1).Draw(t, "d-header")]
				hn[d] = "nv"
			} else {
				d = tr.slots[gen.Uniform(0, len(tr.slots)-1).Draw(t, "d-slot")]
				// every definition form of the language, the name in first and in second place, values from a multi-value call
				defForms := []string{"nv := 1", "var nv int", "var nv = 1", "var nv int = 1", "nv, nw := 1, 2", "nv, nw := c7two()", "nw, nv := c7two()", "nw, nv := 1, 2",
					"var nv, nw int", "var nw, nv int = 1, 2", "var nv, nw = c7two()", "var nw, nv int = c7two()", "var nw, nv = 1, 2"}
				defForm := defForms[gen.Uniform(0, len(defForms)-1).Draw(t, "def-form")]
				at[d] = append(at[d], defForm)
				r.Class("def-form:" + strings.NewReplacer("nv", "a", "nw", "b", "c7two", "two").Replace(defForm))
			}
			u := tr.slots[gen.Uniform(0, len(tr.slots)-1).Draw(t, "u-slot")]
			if u == d {
				// use in the same slot: place it after the definition
				u = &c7slot{order: d.order, blk: d.blk}
			}
			useKind := []string{"read", "read-in-expr", "write", "compound", "incdec", "redefine-short", "redefine-var", "redefine-multi"}[gen.Uniform(0, 7).Draw(t, "use-kind")]
			useLine := map[string]string{"read": "print(nv)", "read-in-expr": "uu := nv + 1", "write": "nv = 5", "compound": "nv += 2", "incdec": "nv++",
				"redefine-short": "nv := 7", "redefine-var": "var nv int", "redefine-multi": "nv, zz := 7, 8"}[useKind]
			defMulti := false
			if lines := at[d]; len(lines) > 0 && strings.Contains(lines[0], ",") && strings.Contains(lines[0], ":=") {
				defMulti = true
			}
			sameSlot := u.order == d.order && u.blk == d.blk && d.header == ""
			var vis, visRev bool
			if sameSlot {
				at[d] = append(at[d], useLine)
				vis = true
			} else {
				at[u] = append(at[u], useLine)
				vis = c7visible(d, u)
				visRev = c7visible(u, d)
			}
			expect = "accept"
			if strings.HasPrefix(useKind, "redefine") {
				// the textually second definition decides: a plain definition of a visible name is an error;
				// "a, b := ..." re-using a variable of the same block is Go's legal re-use; re-declaring an outer one is excluded as undefined
				secondMulti, sameBlock := useKind == "redefine-multi", u.blk == d.blk && d.header == ""
				if visRev {
					secondMulti = defMulti
				}
				if vis || visRev {
					switch {
					case !secondMulti:
						expect = "reject"
					case sameBlock:
						expect = "accept"
					default:
						t.Skip("':=' re-declaring an outer-scope variable is excluded as undefined")
					}
				}
			} else if !vis {
				expect = "reject"
			}
			rel := c7relation(d, u)
			note = fmt.Sprintf("definition in %s, %s in %s (%s)", c7ctxName(d), useKind, c7ctxName(u), rel)
			sig = rep.Sig{"def": c7ctxName(d), "use": useKind, "relation": rel}
			nontrivial = d.blk != u.blk
			r.Class("var:"+useKind, "rel:"+rel, "def:"+c7ctxName(d))
		case family <= 7: // function definition x call
			d := tr.slots[gen.Uniform(0, len(tr.slots)-1).Draw(t, "d-slot")]
			u := tr.slots[gen.Uniform(0, len(tr.slots)-1).Draw(t, "u-slot")]
			at[d] = append(at[d], "func nf() {", "}")
			useKind := []string{"call", "redefine-func"}[gen.Uniform(0, 1).Draw(t, "fuse")]
			if useKind == "call" {
				at[u] = append(at[u], "nf()")
			} else {
				at[u] = append(at[u], "func nf() {", "}")
			}
			expect = "accept"
			switch {
			case d.blk.kind != "top":
				expect = "reject" // function definitions below top level
			case useKind == "call" && u.order < d.order:
				expect = "reject"
			case useKind == "call" && u.order == d.order:
				expect = "accept" // same slot: the call line follows the definition
			case useKind == "redefine-func":
				expect = "reject" // second function of the same name, or nested definition
			}
			note = fmt.Sprintf("func defined in %s, %s in %s", c7ctxName(d), useKind, c7ctxName(u))
			sig = rep.Sig{"def": "func@" + c7ctxName(d), "use": useKind, "relation": c7relation(d, u)}
			nontrivial = d.blk != u.blk
			r.Class("func:"+useKind, "fdef:"+c7ctxName(d))
		default: // placement of break / continue / return / func
			u := tr.slots[gen.Uniform(0, len(tr.slots)-1).Draw(t, "u-slot")]
			what := []string{"break", "continue", "return"}[gen.Uniform(0, 2).Draw(t, "jump")]
			expect = "reject"
			switch what {
			case "break":
				at[u] = append(at[u], "if cv {", "break", "}")
				if u.blk.inLoop {
					expect = "accept"
				}
			case "continue":
				at[u] = append(at[u], "if cv {", "continue", "}")
				if u.blk.inLoop {
					expect = "accept"
				}
			case "return":
				at[u] = append(at[u], "if cv {", "return 5", "}")
				if u.blk.fn != nil && u.blk.fn.returns {
					expect = "accept"
				}
			}
			note = fmt.Sprintf("%s in %s (loop=%v switch=%v fn=%v)", what, c7ctxName(u), u.blk.inLoop, u.blk.inSw, u.blk.fn != nil)
			sig = rep.Sig{"place": what, "ctx": c7ctxName(u), "loop": fmt.Sprint(u.blk.inLoop), "switch": fmt.Sprint(u.blk.inSw)}
			nontrivial = u.blk.depth >= 2
			r.Class("place:" + what + ":" + expect)
		}
		src := tr.render(at, hn)
		r.Eval()
		r.Class("expect:" + expect)
		if nontrivial {
			r.NonTrivial(src, map[string]any{"source": src, "expect": expect, "what": note})
		}
		c := verdictCase{Kind: "verdict", Property: "C07", Files: map[string]string{"main.tsh": src}, Main: "main.tsh", Expect: expect, Note: note}
		if kind, msg := checkVerdict(c); kind != "" {
			sig["kind"] = kind
			r.FailCase(t, sig, note+": "+msg+"\n"+src, c)
		}
		// the same text as an imported file: names are stored under a prefix there, the scope rules are the same
		if ci, ok := asImport(c); ok {
			r.Class("as-imported-file")
			if kind, msg := checkVerdict(ci); kind != "" {
				sig["kind"] = kind
				sig["as-import"] = "yes"
				r.FailCase(t, sig, ci.Note+": "+msg+"\n"+src, ci)
			}
		}
	})
}
