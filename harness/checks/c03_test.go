package checks

import (
	"testing"

	"pgregory.net/rapid"
	"verif/harness/gen"
)

// C03 — Bash target preserves slice and string operation semantics.
func c03Cfg(thorough bool) gen.Cfg {
	c := gen.Cfg{MaxStmts: 24, MaxDepth: 3, ExprDepth: 3, Funcs: true, MaxFuncs: 3, Slices: true, StrOps: true, LoopBudget: 12, DumpGlobal: true, BigSlices: true, ErrSpell: true, BareExpr: true, Panics: true}
	if thorough {
		c.MaxStmts, c.MaxDepth, c.MaxFuncs, c.LoopBudget = 50, 5, 5, 30
	}
	return c
}

func c03NonTrivial(tags map[string]int, ev map[string]int) bool {
	return ev["grow"] > 0 || tags["copy"] > 0 || tags["substr-empty"] > 0 || ev["empty-substring"] > 0 || tags["substr-a"]+tags["substr-b"]+tags["substr-dynamic"]+tags["str-index"] > 0 ||
		(tags["slice-write"] > 0 && tags["slice-read"] > 0) || tags["range"] > 0
}

func TestC03(t *testing.T) {
	r, e := start(t, "C03",
		"programs over []int/[]bool/[]string and strings: literals of length 0-13, aliasing by assignment/parameter/return value, element writes with literal/computed/len()-based indices, growth by 0, 1 and >=2 past the end (gap fill), len, range with one/two variables over slices and strings, copy(dst, src) incl. dst==src, s[i], s[a:b], s[:b], s[a:], s[:], +, ==, != on strings; contents of global slices are dumped. Oracle: reference interpreter (slice = shared growable cell). Plus an exhaustive sweep of all (a,b) substring bounds for lengths 0..L. Non-trivial = growth, copy, a boundary substring, a string index, a write followed by a read, or a range loop; distinct by source text. A third of the programs (by a hash of the text) additionally run as the text of an imported file (same output expected).",
		[]string{"excluded as undefined: out-of-range reads, negative indices, resizing a slice while ranging over it, copy into a longer destination", "element values use the shell-neutral alphabet (C08 owns blanks/metacharacters in elements)"})
	defer r.Flush()
	runSweep(r, e, "C03", c03SweepPrograms(e.Pick(6, 12)), "substring-and-index-bounds")
	cfg := c03Cfg(e.Thorough())
	maxSteps := e.Pick(2000, 8000)
	checkRapid(t, r, func(t *rapid.T) {
		p, tags := gen.Program(t, cfg)
		diffProgram(t, r, p, diffOpts{Property: "C03", MaxSteps: maxSteps, Tags: tags, NonTrivial: c03NonTrivial})
	})
}
