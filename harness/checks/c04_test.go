package checks

import (
	"testing"

	"pgregory.net/rapid"
	"verif/harness/gen"
)

// C04 — operands are evaluated exactly once, in source order, conditions eagerly.
func c04Cfg(thorough bool) gen.Cfg {
	c := gen.Cfg{MaxStmts: 16, MaxDepth: 3, ExprDepth: 3, Funcs: true, MaxFuncs: 2, Slices: true, StrOps: true, LoopBudget: 8, Tracers: true, ErrSpell: true, BareExpr: true, Panics: true}
	if thorough {
		c.MaxStmts, c.MaxDepth, c.MaxFuncs, c.LoopBudget = 30, 4, 3, 16
	}
	return c
}

func c04NonTrivial(tags map[string]int, ev map[string]int) bool {
	return tags["tracer"]+tags["counting-tracer"] >= 2
}

func TestC04(t *testing.T) {
	r, e := start(t, "C04",
		"programs whose operands are wrapped at random positions in effectful tracer calls (ti/tb/ts print 't <id>' and return their argument; tn bumps a global counter and returns it, so a duplicated evaluation changes values): operands of every operator, arguments, indices, slice elements, printed/returned/assigned values, if / else-if / for conditions, case expressions. Oracle: reference interpreter with the README's eager rule; the interleaved trace is compared line by line. Non-trivial = at least two tracers; distinct by source text. A third of the programs (by a hash of the text) additionally run as the text of an imported file (same output expected).",
		[]string{"switch tags and range operands stay pure (number of evaluations unspecified by the property)"})
	defer r.Flush()
	runC04Table(r, e)
	cfg := c04Cfg(e.Thorough())
	maxSteps := e.Pick(2500, 8000)
	checkRapid(t, r, func(t *rapid.T) {
		p, tags := gen.Program(t, cfg)
		diffProgram(t, r, p, diffOpts{Property: "C04", MaxSteps: maxSteps, Tags: tags, NonTrivial: c04NonTrivial})
	})
}
