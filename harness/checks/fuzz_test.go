package checks

import (
	"encoding/json"
	"fmt"
	"os"
	"path/filepath"
	"strconv"
	"strings"
	"testing"
	"time"
	"unicode/utf8"

	"verif/harness/corpus"
	"verif/harness/lexref"
	"verif/harness/run"
)

// Native (coverage-guided) fuzz targets, used by the thorough tier of C11 and C13 in addition to the
// rapid searches. The semantic oracle sits inside the target; a contract violation writes a replay
// file (VERIF_REPLAYS) before failing, a hard crash is converted by TestFuzzCrasherToReplay.

func fuzzSeeds(f *testing.F) {
	repo := os.Getenv("VERIF_REPO")
	if repo == "" {
		repo = "/repo"
	}
	n := 0
	for _, p := range corpus.Suite(repo) {
		if n%3 == 0 {
			f.Add([]byte(p.Source))
		}
		n++
	}
	for _, d := range []string{"examples", "std"} {
		for _, src := range corpus.Files(filepath.Join(repo, d)) {
			f.Add([]byte(src))
		}
	}
	for _, s := range []string{"", "x := 1 +", "func f() {\n}\nif f() {\n}\n", "import a \"main.tsh\"\n", "\"abc", "`", "/*", "a-1", "print(\"\\x41\")", "switch 1 {\ncase 1:\n\tbreak\n}\n", "x := (f())"} {
		f.Add([]byte(s))
	}
}

func writeFuzzReplay(name string, c any) string {
	dir := os.Getenv("VERIF_REPLAYS")
	if dir == "" {
		dir = os.TempDir()
	}
	os.MkdirAll(dir, 0o755)
	p := filepath.Join(dir, name+".json")
	b, _ := json.MarshalIndent(c, "", " ")
	os.WriteFile(p, b, 0o644)
	return p
}

// FuzzC13 — totality of Transpile on arbitrary bytes (main file content), both targets, in process.
func FuzzC13(f *testing.F) {
	fuzzSeeds(f)
	f.Fuzz(func(t *testing.T, data []byte) {
		if len(data) > 4096 {
			t.Skip()
		}
		dir := run.Scratch("fz")
		defer os.RemoveAll(dir)
		path := filepath.Join(dir, "main.tsh")
		os.WriteFile(path, data, 0o644)
		for _, tg := range []run.Target{run.Bash, run.Batch} {
			res := run.TranspilePath(path, tg, 20*time.Second)
			kind := ""
			switch {
			case res.TimedOut:
				kind = "hang"
			case res.Panic != "":
				kind = "panic: " + res.Panic
			case res.Err != nil && res.Script != "":
				kind = "script-and-error"
			case res.Err != nil && res.Err.Error() == "":
				kind = "empty-error"
			case res.Err == nil && res.Script == "":
				kind = "empty-script"
			}
			if kind != "" {
				p := writeFuzzReplay("fuzz-"+fmt.Sprintf("%x", len(data))+"-"+strconv.Itoa(os.Getpid()), totalCase{Kind: "total", Property: "C13", FilesHex: map[string]string{"main.tsh": hexEnc(string(data))}, Main: "main.tsh", Note: "native fuzz: " + kind})
				t.Fatalf("FUZZ-VIOLATION replay=%s %s target: %s", p, tg, kind)
			}
		}
	})
}

// FuzzC11 — lexer differential on arbitrary bytes: the reference token grammar decides.
func FuzzC11(f *testing.F) {
	fuzzSeeds(f)
	f.Fuzz(func(t *testing.T, data []byte) {
		src := string(data)
		if len(src) > 2048 || !utf8.ValidString(src) || reFloatish.MatchString(src) || (strings.Contains(src, "\r") && strings.Contains(strings.ReplaceAll(src, "\r\n", ""), "\r")) {
			t.Skip()
		}
		want, amb, lerr := lexref.Lex(src)
		if amb || (lerr != nil && strings.Contains(lerr.Error(), "unterminated block comment")) {
			t.Skip()
		}
		got, err := safeTokenize(src)
		if lerr != nil {
			if err == nil {
				p := writeFuzzReplay("fuzz-"+strconv.Itoa(os.Getpid()), c11Case{Kind: "lex", Property: "C11", Source: src, WantErr: true, Note: "native fuzz: " + lerr.Error()})
				t.Fatalf("FUZZ-VIOLATION replay=%s Tokenize accepted %q, which the token grammar rejects (%v)", p, src, lerr)
			}
			return
		}
		if msg, _ := c11Compare(src, want, got, err); msg != "" {
			p := writeFuzzReplay("fuzz-"+strconv.Itoa(os.Getpid()), c11Case{Kind: "lex", Property: "C11", Source: src, Expect: want})
			t.Fatalf("FUZZ-VIOLATION replay=%s %s (source %q)", p, msg, src)
		}
	})
}

// TestFuzzCrasherToReplay converts a crasher saved by the fuzz engine (testdata/fuzz/<Target>/<id>) into a replay file.
func TestFuzzCrasherToReplay(t *testing.T) {
	in := os.Getenv("VERIF_FUZZ_CRASHER")
	if in == "" {
		t.Skip("no crasher")
	}
	b, err := os.ReadFile(in)
	if err != nil {
		t.Fatal(err)
	}
	lines := strings.Split(string(b), "\n")
	if len(lines) < 2 || !strings.HasPrefix(lines[1], "[]byte(") {
		t.Fatalf("unexpected corpus file format: %q", string(b))
	}
	lit := strings.TrimSuffix(strings.TrimPrefix(lines[1], "[]byte("), ")")
	data, err := strconv.Unquote(lit)
	if err != nil {
		t.Fatal(err)
	}
	var p string
	if os.Getenv("VERIF_FUZZ_TARGET") == "FuzzC11" {
		want, _, _ := lexref.Lex(data)
		p = writeFuzzReplay("fuzz-crasher", c11Case{Kind: "lex", Property: "C11", Source: data, Expect: want, Note: "native fuzz crasher"})
	} else {
		p = writeFuzzReplay("fuzz-crasher", totalCase{Kind: "total", Property: "C13", FilesHex: map[string]string{"main.tsh": hexEnc(data)}, Main: "main.tsh", Note: "native fuzz crasher"})
	}
	fmt.Println("CRASHER-REPLAY", p)
}
