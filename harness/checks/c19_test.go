package checks

import (
	"encoding/json"
	"fmt"
	"os"
	"os/exec"
	"path/filepath"
	"sort"
	"strings"
	"testing"
	"time"

	"pgregory.net/rapid"
	"verif/harness/gen"
	"verif/harness/rep"
	"verif/harness/run"
	"verif/harness/ts"
)

// C19 — the tsh command writes exactly the library's output, or nothing.

type cliCase struct {
	Kind     string            `json:"kind"` // "cli"
	Property string            `json:"property"`
	Files    map[string]string `json:"files"`   // source tree (relative to the case root)
	In       string            `json:"in"`      // input path as passed (relative to root), "" = option omitted
	Out      string            `json:"out"`     // output directory (relative), "" = option omitted
	Args     []string          `json:"args"`    // full argument list; {IN} and {OUT} are placeholders
	Targets  []string          `json:"targets"` // requested targets in order
	Pre      map[string]string `json:"pre_out"` // files already in the output directory
	PreDirs  []string          `json:"pre_out_dirs,omitempty"`
	Bad      string            `json:"bad,omitempty"` // kind of bad invocation ("" = well-formed invocation)
	Note     string            `json:"note,omitempty"`
}

func snapshot(dir string) map[string]string {
	out := map[string]string{}
	filepath.Walk(dir, func(p string, info os.FileInfo, err error) error {
		if err != nil {
			return nil
		}
		rel, _ := filepath.Rel(dir, p)
		if info.IsDir() {
			if rel != "." {
				out[rel+"/"] = ""
			}
			return nil
		}
		b, _ := os.ReadFile(p)
		out[rel] = string(b)
		return nil
	})
	return out
}

var extOf = map[string]string{"bash": "sh", "batch": "bat"}

func checkCLI(c cliCase) (kind string, msg string) {
	tsh := os.Getenv("VERIF_TSH")
	if tsh == "" {
		return "harness", "VERIF_TSH not set"
	}
	root := run.Scratch("cli")
	defer os.RemoveAll(root)
	run.WriteFiles(root, c.Files)
	outDir := ""
	if c.Out != "" {
		outDir = filepath.Join(root, c.Out)
		if !strings.HasPrefix(c.Bad, "out-missing") && c.Bad != "out-is-file" {
			os.MkdirAll(outDir, 0o755)
			for _, d := range c.PreDirs {
				os.MkdirAll(filepath.Join(outDir, d), 0o755)
			}
			run.WriteFiles(outDir, c.Pre)
		} else if c.Bad == "out-is-file" {
			os.WriteFile(outDir, []byte("i am a file"), 0o644)
		}
	}
	inPath := ""
	if c.In != "" {
		inPath = filepath.Join(root, c.In)
	}
	args := []string{}
	for _, a := range c.Args {
		a = strings.ReplaceAll(a, "{IN}", inPath)
		a = strings.ReplaceAll(a, "{OUT}", outDir)
		// other spellings of the same places (the command runs in the case's root directory)
		a = strings.ReplaceAll(a, "{RIN}", c.In)
		a = strings.ReplaceAll(a, "{ROUT}", c.Out)
		a = strings.ReplaceAll(a, "{DOTIN}", "./"+filepath.Dir(c.In)+"/./"+filepath.Base(c.In))
		a = strings.ReplaceAll(a, "{DOTOUT}", "./"+c.Out+"/.")
		args = append(args, a)
	}
	before := snapshot(root)
	cmd := exec.Command(tsh, args...)
	cmd.Dir = root
	done := make(chan error, 1)
	var outb strings.Builder
	cmd.Stdout, cmd.Stderr = &outb, &outb
	if err := cmd.Start(); err != nil {
		return "harness", err.Error()
	}
	go func() { done <- cmd.Wait() }()
	status := 0
	select {
	case err := <-done:
		if err != nil {
			if ee, ok := err.(*exec.ExitError); ok {
				status = ee.ExitCode()
			} else {
				return "harness", err.Error()
			}
		}
	case <-time.After(30 * time.Second):
		cmd.Process.Kill()
		return "hang", "tsh did not terminate within 30 s"
	}
	after := snapshot(root)

	// expected: the library's verdict and bytes per requested target (fresh converter each)
	type exp struct {
		target string
		res    run.TResult
	}
	var exps []exp
	failing := -1
	if c.Bad == "" {
		for i, tg := range c.Targets {
			res := run.TranspilePath(inPath, run.Target(tg), 20*time.Second)
			exps = append(exps, exp{tg, res})
			if !res.Accepted() && failing < 0 {
				failing = i
			}
		}
	}
	base := filepath.Base(c.In)
	base = base[:len(base)-len(filepath.Ext(base))]
	rel := func(tg string) string { return filepath.Join(c.Out, base+"."+extOf[tg]) }

	wantFail := c.Bad != "" || failing >= 0
	if wantFail && status == 0 {
		return "exit", fmt.Sprintf("tsh exited 0 although the invocation must fail (%s%s); output: %s", c.Bad, c.Note, clip(outb.String()))
	}
	if !wantFail && status != 0 {
		return "exit", fmt.Sprintf("tsh exited %d for a valid invocation: %s", status, clip(outb.String()))
	}
	// the input file itself is never modified, wherever it lies
	if c.In != "" {
		if v, ok := before[c.In]; ok {
			if nv, ok2 := after[c.In]; !ok2 || nv != v {
				return "input-modified", fmt.Sprintf("the input file %s was changed or removed by tsh", c.In)
			}
		}
	}
	// the input tree is never modified
	for k, v := range before {
		if c.Out != "" && (k == c.Out+"/" || strings.HasPrefix(k, c.Out+"/")) {
			continue
		}
		if nv, ok := after[k]; !ok || nv != v {
			return "input-modified", fmt.Sprintf("%s was changed or removed by tsh", k)
		}
	}
	allowed := map[string]string{} // rel path -> required content
	mayExist := map[string]bool{}
	if !wantFail {
		for _, e := range exps {
			allowed[rel(e.target)] = e.res.Script
		}
	} else if c.Bad == "" {
		// targets converted before the failing one may have been written; the failing one and later ones must be untouched
		for i, e := range exps {
			if i < failing && e.res.Accepted() {
				// only if no failing target has the same file
				same := false
				for j := failing; j < len(exps); j++ {
					if exps[j].target == e.target {
						same = true
					}
				}
				if !same {
					mayExist[rel(e.target)] = true
					allowed[rel(e.target)] = e.res.Script
				}
			}
		}
	}
	keys := map[string]bool{}
	for k := range before {
		keys[k] = true
	}
	for k := range after {
		keys[k] = true
	}
	ks := []string{}
	for k := range keys {
		ks = append(ks, k)
	}
	sort.Strings(ks)
	for _, k := range ks {
		b, bok := before[k]
		a, aok := after[k]
		if want, ok := allowed[k]; ok {
			if mayExist[k] {
				if aok && a != want && !(bok && a == b) {
					return "bytes", fmt.Sprintf("%s differs from the library's output", k)
				}
				continue
			}
			if !aok {
				return "missing-output", fmt.Sprintf("%s was not written", k)
			}
			if a != want {
				return "bytes", fmt.Sprintf("%s has %d bytes, the library returns %d bytes for the same file and target%s", k, len(a), len(want), firstDiff(a, want))
			}
			continue
		}
		switch {
		case bok && !aok:
			return "stray-file", fmt.Sprintf("%s disappeared", k)
		case !bok && aok:
			return "stray-file", fmt.Sprintf("unexpected new file %s (%d bytes)", k, len(a))
		case a != b:
			return "stray-file", fmt.Sprintf("%s was modified although it is not an output of this invocation (or its target failed)", k)
		}
	}
	return "", ""
}

func firstDiff(a, b string) string {
	n := len(a)
	if len(b) < n {
		n = len(b)
	}
	for i := 0; i < n; i++ {
		if a[i] != b[i] {
			return fmt.Sprintf(" (first difference at byte %d)", i)
		}
	}
	return fmt.Sprintf(" (one is a prefix of the other; common length %d)", n)
}

func init() {
	replayFuncs["cli"] = func(raw json.RawMessage) (bool, string) {
		var c cliCase
		json.Unmarshal(raw, &c)
		k, msg := checkCLI(c)
		return k == "", k + ": " + msg
	}
}

func TestC19(t *testing.T) {
	r, e := start(t, "C19",
		"invocations of the tsh binary built from the current tree: the -i/--in, -o/--out, -t/--type pairs in every order and spelling, 1-4 targets in any order with repetitions, input names (a.tsh, a.b.c.tsh, noext, 'sp ace.tsh', .hidden.tsh, one-character x, -.tsh, a.tsh.tsh, directories with dots), accepted programs (incl. imports relative to the input and std beside the binary) and rejected ones (lexical, syntax, type errors, missing import), bad invocations (unknown switch/target, missing -i/-o/-t, missing value, a surplus last argument, missing input, input is a directory, output missing / a file, the target file's name taken by a directory, the input lying in the output directory under the name of its own output), input and output directory spelled absolutely, relatively or with redundant ./ parts, output directory pre-populated with decoys and stale outputs. Oracle: exit status; every requested target's file holds exactly the bytes the library returns in process; nothing else in the tree changes; on failure the failing target's file is untouched. Non-trivial = two or more targets, a repeated target, an unusual file name or a failing run; distinct by invocation + sources.",
		[]string{"targets converted successfully before a failing target may already have been written (the statement only speaks about the failing target)"})
	defer r.Flush()
	_ = e
	gcfg := gen.Cfg{MaxStmts: 10, MaxDepth: 2, ExprDepth: 2, Funcs: true, MaxFuncs: 2, Slices: true, StrOps: true, LoopBudget: 4, IO: true, Panics: true, ErrSpell: true, BareExpr: true}
	checkRapid(t, r, func(t *rapid.T) {
		c := cliCase{Kind: "cli", Property: "C19", Files: map[string]string{}, Pre: map[string]string{}}
		name := []string{"a.tsh", "a.b.c.tsh", "noext", "sp ace.tsh", ".hidden.tsh", "prog.tsh", "UPPER.TSH", "x.y", "x", "-.tsh", "a.tsh.tsh", "tsh"}[gen.Uniform(0, 11).Draw(t, "name")]
		dir := []string{"src", "src/dir.d", "s p", "."}[gen.Uniform(0, 3).Draw(t, "dir")]
		c.In = filepath.Join(dir, name)
		c.Out = []string{"out", "o.d/deep", "out put"}[gen.Uniform(0, 2).Draw(t, "out")]
		// program
		progKind := gen.Uniform(0, 9).Draw(t, "prog")
		switch {
		case progKind <= 3:
			stmts, _ := gen.Stmts(t, gcfg)
			c.Files[c.In] = ts.StmtsString(stmts)
			c.Note = "generated"
		case progKind == 4:
			c.Files[c.In] = "import (\n\thp \"lib/helper.tsh\"\n\t\"strings\"\n)\nprint(hp.Twice(2), strings.Repeat(\"ab\", 2))\n"
			c.Files[filepath.Join(dir, "lib/helper.tsh")] = c14Helper
			c.Note = "imports"
		case progKind == 5:
			c.Files[c.In] = "print(\"hello\")\n"
			c.Note = "hello"
		default:
			bad := []string{"x := \"abc\n", "x := 1 +\n", "print(undefined)\n", "if 1 {\n}\n", "x := 1\nx := 2\n", "import q \"missing.tsh\"\n", "x := #\n", "func f() int {\n}\n", "switch 1 {\ncase 1:\n\tbreak\n}\n"}[gen.Uniform(0, 8).Draw(t, "bad-prog")]
			c.Files[c.In] = bad
			c.Note = "rejected-program"
		}
		// targets
		nt := gen.Uniform(1, 4).Draw(t, "ntargets")
		for i := 0; i < nt; i++ {
			c.Targets = append(c.Targets, []string{"bash", "batch"}[gen.Uniform(0, 1).Draw(t, "target")])
		}
		// pre-populated output directory
		base := name[:len(name)-len(filepath.Ext(name))]
		if gen.Uniform(0, 1).Draw(t, "decoys") == 1 {
			c.Pre["decoy.txt"] = "keep me"
			c.Pre[base+".txt"] = "not an output"
		}
		if gen.Uniform(0, 2).Draw(t, "stale") == 0 {
			c.Pre[base+".sh"] = "#!/bin/bash\necho stale\n"
			c.Pre[base+".bat"] = "@echo stale\r\n"
		}
		// option pairs in random order and spelling
		// the input and the output directory are given absolutely, relative to the working directory, or with redundant ./ parts
		inSp := []string{"{IN}", "{IN}", "{RIN}", "{DOTIN}"}[gen.Uniform(0, 3).Draw(t, "in-path-spelling")]
		outSp := []string{"{OUT}", "{OUT}", "{ROUT}", "{DOTOUT}"}[gen.Uniform(0, 3).Draw(t, "out-path-spelling")]
		if strings.HasPrefix(name, "-") && inSp == "{RIN}" && dir == "." {
			inSp = "{IN}" // a relative path that starts with a dash would be read as ... a value anyway; keep it simple
		}
		if inSp != "{IN}" || outSp != "{OUT}" {
			r.Class("relative-path-spelling")
		}
		pairs := [][]string{{[]string{"-i", "--in"}[gen.Uniform(0, 1).Draw(t, "i-spelling")], inSp}, {[]string{"-o", "--out"}[gen.Uniform(0, 1).Draw(t, "o-spelling")], outSp}}
		for _, tg := range c.Targets {
			pairs = append(pairs, []string{[]string{"-t", "--type"}[gen.Uniform(0, 1).Draw(t, "t-spelling")], tg})
		}
		// shuffle pairs but keep the relative order of the targets (it decides nothing but is part of the case)
		perm := rapid.Permutation(indices16(len(pairs))).Draw(t, "order")
		ordered := [][]string{}
		for _, i := range perm {
			ordered = append(ordered, pairs[i])
		}
		// targets in the order they appear on the command line
		c.Targets = nil
		for _, p := range ordered {
			if p[0] == "-t" || p[0] == "--type" {
				c.Targets = append(c.Targets, p[1])
			}
		}
		// bad invocations
		if gen.Uniform(0, 5).Draw(t, "bad-invocation") == 0 {
			c.Bad = []string{"unknown-switch", "unknown-target", "no-in", "no-out", "no-type", "missing-value", "in-missing", "in-is-dir", "out-missing", "out-is-file", "trailing-argument", "target-is-directory", "output-is-input"}[gen.Uniform(0, 12).Draw(t, "bad-kind")]
			if c.Note == "rejected-program" && (c.Bad == "target-is-directory" || c.Bad == "output-is-input") {
				c.Bad = "trailing-argument" // those two need a program that would otherwise be written
			}
			drop := func(sw ...string) {
				o2 := [][]string{}
				for _, p := range ordered {
					keep := true
					for _, s := range sw {
						if p[0] == s {
							keep = false
						}
					}
					if keep {
						o2 = append(o2, p)
					}
				}
				ordered = o2
			}
			switch c.Bad {
			case "unknown-switch":
				ordered = append([][]string{{"-x", "y"}}, ordered...)
			case "unknown-target":
				ordered = append(ordered, []string{"-t", "powershell"})
			case "no-in":
				drop("-i", "--in")
			case "no-out":
				drop("-o", "--out")
			case "no-type":
				drop("-t", "--type")
			case "missing-value":
				drop("-t", "--type")
				ordered = append(ordered, []string{"-t"})
			case "trailing-argument":
				// one argument too many at the very end: a value without option, or an option without value
				ordered = append(ordered, []string{[]string{"junk", "-x", "-t", "--out"}[gen.Uniform(0, 3).Draw(t, "trailing")]})
			case "target-is-directory":
				// the file of the FIRST requested target cannot be written: a directory has its name
				c.PreDirs = append(c.PreDirs, base+"."+extOf[c.Targets[0]])
				delete(c.Pre, base+"."+extOf[c.Targets[0]])
			case "output-is-input":
				// the input is called like the output of the first target and lies in the output directory
				src := c.Files[c.In]
				delete(c.Files, c.In)
				c.In = filepath.Join(c.Out, "q."+extOf[c.Targets[0]])
				c.Pre = map[string]string{"q." + extOf[c.Targets[0]]: src}
				if c.Note == "imports" {
					c.Pre["lib/helper.tsh"] = c14Helper
				}
			case "in-missing":
				delete(c.Files, c.In)
				c.Files["other.txt"] = "x"
			case "in-is-dir":
				delete(c.Files, c.In)
				c.Files[filepath.Join(c.In, "inner.tsh")] = "print(1)\n"
			}
		}
		for _, p := range ordered {
			c.Args = append(c.Args, p...)
		}
		r.Eval()
		r.Class("prog:"+c.Note, fmt.Sprintf("targets:%d", len(c.Targets)))
		if c.Bad != "" {
			r.Class("bad:" + c.Bad)
		}
		repeated := false
		seen := map[string]bool{}
		for _, tg := range c.Targets {
			if seen[tg] {
				repeated = true
			}
			seen[tg] = true
		}
		if repeated {
			r.Class("repeated-target")
		}
		key, _ := json.Marshal(c)
		if len(c.Targets) >= 2 || repeated || name != "prog.tsh" || c.Note == "rejected-program" || c.Bad != "" {
			r.NonTrivial(string(key), map[string]any{"args": c.Args, "in": c.In, "program": c.Note, "bad": c.Bad})
		}
		kind, msg := checkCLI(c)
		if kind == "harness" {
			r.HarnessError("%s", msg)
			t.Skip("harness")
		}
		if kind != "" {
			shape := "single-target"
			if repeated {
				shape = "repeated-target"
			} else if len(c.Targets) > 1 {
				shape = "multi-target"
			}
			if c.Bad != "" {
				shape = "bad:" + c.Bad
			} else if c.Note == "rejected-program" {
				shape += "+rejected-program"
			}
			r.FailCase(t, rep.Sig{"invocation": shape, "what": kind}, msg+"\nargs: "+strings.Join(c.Args, " "), c)
		}
	})
}

func indices16(n int) []int {
	out := make([]int, n)
	for i := range out {
		out[i] = i
	}
	return out
}
