package checks

import (
	"encoding/json"
	"fmt"
	"github.com/monstermichl/typeshell/lexer"
	"os"
	"strings"
	"testing"

	"pgregory.net/rapid"
	"verif/harness/rep"
)

// replayFuncs maps the "kind" field of a replay file to the plain (rapid-free) regression check.
// Each returns ok=false plus a message if the stored case still violates its property.
var replayFuncs = map[string]func(raw json.RawMessage) (bool, string){}

type replayHeader struct {
	Kind     string `json:"kind"`
	Property string `json:"property"`
}

func replayFile(path string) (bool, string, error) {
	b, err := os.ReadFile(path)
	if err != nil {
		return false, "", err
	}
	var h replayHeader
	if err := json.Unmarshal(b, &h); err != nil {
		return false, "", err
	}
	f, ok := replayFuncs[h.Kind]
	if !ok {
		return false, "", fmt.Errorf("unknown replay kind %q", h.Kind)
	}
	ok2, msg := f(b)
	return ok2, msg, nil
}

// TestReplay re-runs one stored case: VERIF_REPLAY=<file>.
func TestReplay(t *testing.T) {
	path := os.Getenv("VERIF_REPLAY")
	if path == "" {
		t.Skip("no VERIF_REPLAY")
	}
	ok, msg, err := replayFile(path)
	if err != nil {
		t.Fatalf("REPLAY-ERROR %v", err)
	}
	if ok {
		fmt.Println("REPLAY-OK", path)
		return
	}
	fmt.Println("REPLAY-VIOLATION", path)
	fmt.Println(msg)
}

// runWitnesses replays the witnesses of this property's known findings (shard 0 only) and
// records which still reproduce.
func runWitnesses(r *rep.R, e rep.Env) {
	if e.Shard != 0 {
		return
	}
	res := map[string]string{}
	for _, f := range rep.LoadFindings(e.Verif+"/known_findings.jsonl", e.Property) {
		if f.Witness == "" {
			continue
		}
		ok, _, err := replayFile(e.Verif + "/" + f.Witness)
		switch {
		case err != nil:
			res[f.ID] = "error: " + err.Error()
		case ok:
			res[f.ID] = "passes"
		default:
			res[f.ID] = "reproduces"
		}
	}
	r.SetExtra("witness", res)
}

// start creates the reporter of a check; done must be deferred.
func start(t *testing.T, property string, rule string, assumptions []string) (*rep.R, rep.Env) {
	e := rep.GetEnv(property)
	r := rep.New(e)
	r.SetExtra("rule", rule)
	r.SetExtra("assumptions", assumptions)
	runWitnesses(r, e)
	return r, e
}

// checkRapid runs a rapid property and converts its failure into the shard report.
func checkRapid(t *testing.T, r *rep.R, prop func(*rapid.T)) {
	failedBefore := t.Failed()
	t.Run("rapid", func(st *testing.T) {
		rapid.Check(st, prop)
	})
	r.AfterRapid(t, failedBefore)
}

// wrapInBlock puts statements into a construct that runs them exactly once (form 0: unchanged): builtins must behave
// the same inside a taken branch, an else branch, a one-pass loop, a switch case and a nested combination.
func wrapInBlock(lines string, form int, k int) string {
	ind := func(s string) string {
		out := ""
		for _, l := range strings.Split(strings.TrimSuffix(s, "\n"), "\n") {
			out += "\t" + l + "\n"
		}
		return out
	}
	switch form {
	case 1:
		return "if 1 == 1 {\n" + ind(lines) + "}\n"
	case 2:
		return fmt.Sprintf("for wi%d := 0; wi%d < 1; wi%d++ {\n", k, k, k) + ind(lines) + "}\n"
	case 3:
		return "if 1 == 2 {\n\tprint(\"never\")\n} else {\n" + ind(lines) + "}\n"
	case 4:
		return "switch 1 {\ncase 2:\n\tprint(\"never\")\ncase 1:\n" + ind(lines) + "}\n"
	case 5:
		return fmt.Sprintf("for wj%d := 0; wj%d < 2; wj%d++ {\n\tif wj%d == 1 {\n", k, k, k, k) + ind(ind(lines)) + "\t}\n}\n"
	}
	return lines
}

// safeTokenize calls the lexer under test; a panic becomes an error value ("PANIC: ...") instead of killing the
// shard, so that the check can report it (C11: a token list was expected; C13: totality).
func safeTokenize(src string) (toks []lexer.Token, err error) {
	defer func() {
		if p := recover(); p != nil {
			toks, err = nil, fmt.Errorf("PANIC: %v", p)
		}
	}()
	return lexer.Tokenize(src)
}
