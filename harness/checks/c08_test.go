package checks

import (
	"fmt"
	"regexp"
	"sort"
	"strconv"
	"strings"
	"testing"

	"pgregory.net/rapid"
	"verif/harness/gen"
	"verif/harness/rep"
)

// C08 — string values are opaque data on every path: never expanded or executed.
// Matrix: character x position x data path x origin, one small program per cell; plus random
// hostile strings pushed through random path compositions. Oracle: the value arrives byte for
// byte (stdout between '<' '>' markers, or file bytes), stderr is empty and no file appears
// that only executed data could create.

func charClass(c byte, pos string) string {
	switch {
	case c == '$':
		return "dollar"
	case c == '`':
		return "backquote"
	case c == '"':
		return "dquote"
	case c == '\\':
		return "backslash"
	case c == '*' || c == '?' || c == '[' || c == ']':
		return "glob"
	case c == '-':
		if pos == "first" || pos == "only" {
			return "leading-dash"
		}
		return "dash"
	case c == ' ':
		if pos == "middle" {
			return "blank"
		}
		return "edge-blank"
	case c == '\t':
		return "tab"
	case c == '\n':
		return "newline"
	case c == '!':
		return "bang"
	case (c >= 'a' && c <= 'z') || (c >= 'A' && c <= 'Z') || (c >= '0' && c <= '9') || c == '_':
		return "alnum"
	}
	return "punct"
}

// valueClass classifies a whole string (random part): the most dangerous class wins.
func valueClass(v string) string {
	order := []string{"newline", "dollar", "backquote", "dquote", "backslash", "leading-dash", "glob", "edge-blank", "tab", "bang", "punct", "blank", "dash", "alnum"}
	found := map[string]bool{}
	for i := 0; i < len(v); i++ {
		pos := "middle"
		if i == 0 {
			pos = "first"
		} else if i == len(v)-1 {
			pos = "last"
		}
		found[charClass(v[i], pos)] = true
	}
	if strings.Contains(v, "  ") {
		found["edge-blank"] = true
	}
	for _, k := range order {
		if found[k] {
			return k
		}
	}
	return "empty"
}

func tsQuote(v string) string { return strconv.Quote(v) }

type c8Cell struct {
	path, origin string
	value        string
}

// c8Program builds the program of one cell. Returns source, stdin, pre-files, expected stdout, expected files (nil = unchanged).
func c8Program(cell c8Cell) (src, stdin string, pre map[string]string, expOut string, expFS map[string]string, ok bool) {
	v := cell.value
	pre = map[string]string{}
	var sb strings.Builder
	hoisted := "" // function definitions an origin needs (top level only)
	obtain := func(name string) string {
		switch cell.origin {
		case "literal-direct":
			return "" // the literal is written at every place of use instead of being held in a variable
		case "literal":
			return name + " := " + tsQuote(v) + "\n"
		case "raw-literal":
			return name + " := `" + v + "`\n"
		case "file":
			pre["in.txt"] = v + "\n"
			return name + " := read(\"in.txt\")\n"
		case "file-no-final-newline":
			pre["in.txt"] = v // a file whose last line is not terminated
			return name + " := read(\"in.txt\")\n"
		case "command-no-final-newline":
			pre["in.txt"] = v // a command whose output does not end with a line break
			return name + ", e" + name + ", c" + name + " := @cat(\"in.txt\")\n"
		case "stdin", "stdin-last-line":
			stdin += v + "\n" // stdin-last-line: the terminator of the last line is removed below
			return name + " := input()\n"
		case "stdin-prompt":
			stdin += v + "\n"
			return name + " := input(" + tsQuote(c8Prompt) + ")\n"
		case "stdin-function":
			stdin += v + "\n"
			hoisted += "func ask" + name + "(p string) string {\n\tr := input(p)\n\treturn r\n}\n"
			return name + " := ask" + name + "(" + tsQuote(c8Prompt) + ")\n"
		case "command":
			pre["in.txt"] = v + "\n"
			return name + ", e" + name + ", c" + name + " := @cat(\"in.txt\")\n"
		}
		return ""
	}
	// origins that cannot carry the value at all are skipped (not failures)
	switch cell.origin {
	case "raw-literal":
		if strings.ContainsAny(v, "`\r") {
			return "", "", nil, "", nil, false
		}
	case "file", "command", "file-no-final-newline", "command-no-final-newline":
		if strings.HasSuffix(v, "\n") {
			return "", "", nil, "", nil, false // command substitution / read strip trailing newlines by definition
		}
	case "stdin", "stdin-prompt", "stdin-function", "stdin-last-line":
		if strings.Contains(v, "\n") {
			return "", "", nil, "", nil, false // input() reads one line
		}
	}
	sink := func(e string) string { return "print(\"<\" + " + e + " + \">\")\n" }
	mark := func(s string) string { return "<" + s + ">\n" }
	switch cell.path {
	case "sink":
		sb.WriteString(obtain("x") + sink("x"))
		expOut = mark(v)
	case "print":
		sb.WriteString(obtain("x") + "print(x)\n")
		expOut = v + "\n"
	case "print-two":
		sb.WriteString(obtain("x") + "print(x, \"Z\")\n")
		expOut = v + " Z\n"
	case "assign":
		sb.WriteString(obtain("x") + "y := x\nvar z string\nz = y\n" + sink("z"))
		expOut = mark(v)
	case "concat-left":
		sb.WriteString(obtain("x") + "y := x + \"Z\"\n" + sink("y"))
		expOut = mark(v + "Z")
	case "concat-right":
		sb.WriteString(obtain("x") + "y := \"Z\" + x\n" + sink("y"))
		expOut = mark("Z" + v)
	case "compare":
		sb.WriteString(obtain("x") + obtain("w") + "print(x == w, x != w, x == \"Zq\", x != \"Zq\", x + \"k\" == w)\n")
		expOut = "1 0 0 1 0\n"
	case "slice-copy":
		// copy() moves every element through a helper of the emitted script
		sb.WriteString(obtain("x") + "src := []string{\"p\", x, \"q\"}\nvar dst []string\nn := copy(dst, src)\nprint(n, len(dst))\n" + sink("dst[1]") + sink("src[1]"))
		expOut = "3 3\n" + mark(v) + mark(v)
	case "compare-empty":
		// against the empty string, nil and as an empty switch case: an emptiness test must not split or interpret the value
		sb.WriteString(obtain("x") + "print(x == \"\", \"\" == x, x != \"\", x == nil, nil != x)\nswitch x {\ncase \"\":\n\tprint(\"empty\")\ndefault:\n\tprint(\"not empty\")\n}\n")
		if v == "" {
			expOut = "1 1 0 1 0\nempty\n"
		} else {
			expOut = "0 0 1 0 1\nnot empty\n"
		}
	case "argument":
		sb.WriteString("func id(a string) string {\n\treturn a\n}\n" + obtain("x") + "y := id(x)\n" + sink("y"))
		expOut = mark(v)
	case "argument-second":
		sb.WriteString("func snd(a string, b string) string {\n\treturn b\n}\n" + obtain("x") + "y := snd(\"q\", x)\n" + sink("y"))
		expOut = mark(v)
	case "return":
		sb.WriteString("func mk() string {\n\t" + strings.TrimSuffix(obtain("x"), "\n") + "\n\treturn x\n}\ny := mk()\n" + sink("y"))
		expOut = mark(v)
	case "slice-literal":
		sb.WriteString(obtain("x") + "s := []string{\"q\", x}\ny := s[1]\n" + sink("y") + "print(len(s))\n")
		expOut = mark(v) + "2\n"
	case "slice-assign":
		sb.WriteString(obtain("x") + "var s []string\ns[0] = \"q\"\ns[1] = x\ny := s[1]\n" + sink("y") + "print(len(s))\n")
		expOut = mark(v) + "2\n"
	case "slice-param":
		sb.WriteString("func put(s []string, a string) {\n\ts[1] = a\n}\n" + obtain("x") + "t := []string{\"q\"}\nput(t, x)\ny := t[1]\n" + sink("y"))
		expOut = mark(v)
	case "range-slice":
		sb.WriteString(obtain("x") + "s := []string{x, \"q\"}\nfor i, e := range s {\n\tprint(\"<\" + e + \">\")\n}\n")
		expOut = mark(v) + mark("q")
	case "range-string":
		sb.WriteString(obtain("x") + "for i, ch := range x {\n\tprint(\"<\" + ch + \">\")\n}\n")
		for i := 0; i < len(v); i++ {
			expOut += mark(v[i : i+1])
		}
	case "subscript":
		if len(v) == 0 {
			return "", "", nil, "", nil, false
		}
		sb.WriteString(obtain("x") + "a := x[0]\nb := x[len(x) - 1]\nc := x[0:len(x)]\nd := x[1:]\n" + sink("a") + sink("b") + sink("c") + sink("d"))
		expOut = mark(v[:1]) + mark(v[len(v)-1:]) + mark(v) + mark(v[1:])
	case "len":
		sb.WriteString(obtain("x") + "print(len(x))\n")
		expOut = strconv.Itoa(len(v)) + "\n"
	case "write":
		sb.WriteString(obtain("x") + "write(\"out.txt\", x)\nwrite(\"app.txt\", \"first\")\nwrite(\"app.txt\", x, true)\n")
		expFS = map[string]string{"out.txt": v + "\n", "app.txt": "first\n" + v + "\n"}
	case "switch":
		sb.WriteString(obtain("x") + obtain("w") + "switch x {\ncase \"Zq\":\n\tprint(\"wrong\")\ncase w:\n\tprint(\"hit\")\ndefault:\n\tprint(\"miss\")\n}\n")
		expOut = "hit\n"
	default:
		return "", "", nil, "", nil, false
	}
	src = hoisted + sb.String()
	if cell.origin == "literal-direct" {
		switch cell.path {
		case "subscript", "range-string", "return":
			return "", "", nil, "", nil, false // a literal cannot be subscripted / ranged over directly
		}
		src = reVarXW.ReplaceAllStringFunc(src, func(string) string { return tsQuote(v) })
	}
	if cell.origin == "stdin-last-line" {
		// the value is the last line of the standard input and that line is not terminated (printf 'v' | script)
		stdin = strings.TrimSuffix(stdin, "\n")
	}
	return src, stdin, pre, expOut, expFS, true
}

// reVarXW matches the variables x and w of the path templates as whole words outside string literals
// (the templates never contain these letters as words inside their own literals).
var reVarXW = regexp.MustCompile(`\b[xw]\b`)

var c8Hostile = []string{"$(touch CANARY)", "`touch CANARY`", "$HOME", "${x}", "$x", "*", "?", "[a]", "~", "{a,b}", "-n", "-e", "-E", "--", "-", "a  b", " lead", "trail ", "a;b", "a&b", "a|b", ">f", "<f", "\"", "'", "\\", "\\n", "a\\", "!", "!!", "#c", "a #c", "%s", "%d", "$(", "$((1+1))", "\"; touch CANARY; \"", "x\" y", "$1", "$@", "$?", "&&", "||", "(", ")", "=", "a=b",
	// blanks and tabs next to an embedded line break (a literal with an embedded newline spans several script lines)
	"a \nb", "a\t\nb", "a\n b", " \n ", "x \n", "\n x", "a  \n  b", "~", "~/x", "a=~/x", "\ta", "a\t"}

var c8Paths = []string{"sink", "print", "print-two", "assign", "concat-left", "concat-right", "compare", "compare-empty", "slice-copy", "argument", "argument-second", "return", "slice-literal", "slice-assign", "slice-param", "range-slice", "range-string", "subscript", "len", "write", "switch"}
var c8Origins = []string{"literal", "literal-direct", "raw-literal", "file", "stdin", "stdin-prompt", "stdin-function", "command", "stdin-last-line", "file-no-final-newline", "command-no-final-newline"}

// c8Prompt is the prompt of input(prompt); wherever it is shown it is not part of the value (execCase.IgnoreToken).
const c8Prompt = "Q7Z ask> "

func c8Run(cell c8Cell) (execCase, execOutcome, bool) {
	src, stdin, pre, expOut, expFS, ok := c8Program(cell)
	if !ok {
		return execCase{}, execOutcome{}, false
	}
	c := execCase{Kind: "bash-run", Property: "C08", Files: map[string]string{"main.tsh": src}, Main: "main.tsh", Stdin: stdin, Pre: pre,
		ExpectStdout: expOut, ExpectStatus: 0, ExpectFS: expFS, CheckFS: true, Env: []string{"PATH=/usr/bin:/bin"},
		Note: fmt.Sprintf("path=%s origin=%s value=%q", cell.path, cell.origin, cell.value)}
	if strings.HasPrefix(cell.origin, "stdin-") {
		c.IgnoreToken = c8Prompt
	}
	return c, runExecCase(c), true
}

func TestC08(t *testing.T) {
	r, e := start(t, "C08",
		"matrix: every printable ASCII character (plus newline and tab) x position (first, middle, last, only; carrier 'ab') x 19 data paths (print bare / with a second value, marker sink, assign, concatenation left/right, comparison both outcomes, comparison with the empty string / nil / an empty switch case, argument 1st/2nd, return from a function that obtains the value, slice literal / element assignment / through a slice parameter / copy(), range over slice and over the string, subscripts and substrings, len, write + append (file bytes), switch) x 11 origins (interpreted literal held in a variable / written at the place of use, raw literal, file via read, stdin via input() / input(prompt) / inside a function, captured command output, and the same three run-time sources without final line terminator: last line of stdin, file and command output not ending in a line break); plus random strings of length 0-12 over the full alphabet with hostile constants ($(touch CANARY), `touch CANARY`, $HOME, ${x}, *, ~, {a,b}, -n, -e, --, blanks, ;, &, |, >f, quotes, backslashes) pushed through random paths. Oracle: byte-exact value on stdout between markers / in the file, empty stderr, exit 0, and no file in the sandbox that was not written by the program. Non-trivial = cells whose character is not alphanumeric; distinct by (path, origin, value).",
		[]string{"Bash target only (the property's anchors)", "a value that cannot exist at an origin is skipped: trailing newlines for read/command output, any newline for input(), backquote in raw literals", "a cell whose marker sink already fails is attributed to the sink path of that (origin, class) and the other paths of that value are counted inconclusive"})
	defer r.Flush()

	chars := []byte{}
	for c := byte(0x20); c <= 0x7e; c++ {
		chars = append(chars, c)
	}
	chars = append(chars, '\n', '\t')
	positions := []string{"first", "middle", "last", "only"}
	build := func(c byte, pos string) string {
		switch pos {
		case "first":
			return string(c) + "ab"
		case "middle":
			return "a" + string(c) + "b"
		case "last":
			return "ab" + string(c)
		}
		return string(c)
	}
	idx := 0
	ncells := 0
	sinkBad := map[string]bool{} // origin|value -> the sink itself fails
	for _, c := range chars {
		alnum := charClass(c, "middle") == "alnum"
		if alnum && c != 'a' && c != 'Z' && c != '0' && c != 'n' && c != 'e' {
			continue // letters and digits behave alike; a few representatives stay in
		}
		for _, pos := range positions {
			if !e.Thorough() && (pos == "middle" || pos == "last") && charClass(c, pos) != "edge-blank" && c != '\n' && c != '\\' && c != '$' {
				continue // quick tier: first + only (plus the positions that matter for blanks, newline, backslash, dollar)
			}
			v := build(c, pos)
			for _, origin := range c8Origins {
				idx++ // all paths of one (value, origin) stay in one shard: the sink result is needed
				for _, path := range c8Paths {
					if !e.Mine(idx) {
						continue
					}
					cell := c8Cell{path: path, origin: origin, value: v}
					key := origin + "|" + v
					if path != "sink" && sinkBad[key] {
						r.Inconclusive("sink-fails-for-this-value")
						continue
					}
					c, out, ok := c8Run(cell)
					if !ok {
						continue
					}
					ncells++
					r.Eval()
					cls := charClass(c0(c8charOf(v, pos)), pos)
					r.Class("path:"+path, "origin:"+origin, "class:"+cls)
					if cls != "alnum" {
						r.NonTrivial(c.Note, map[string]any{"path": path, "origin": origin, "value": v, "program": c.Files["main.tsh"]})
					}
					if out.OK {
						continue
					}
					if path == "sink" {
						sinkBad[key] = true
					}
					sig := rep.Sig{"path": path, "origin": origin, "class": cls, "kind": out.Kind}
					r.Violate(sig, c.Note+"\n"+out.Msg+"\n--- source\n"+c.Files["main.tsh"], c)
				}
			}
		}
	}
	// whole-value words: strings that are dangerous as a whole (option words, expansions, operators), every path x origin
	for _, v := range c8Hostile {
		for _, origin := range c8Origins {
			if (origin == "literal" || origin == "literal-direct" || origin == "raw-literal") && strings.ContainsAny(v, "$`\"\\") {
				continue // the listed literal-interpolation findings; the per-character matrix above keeps their cells
			}
			idx++
			for _, path := range c8Paths {
				if !e.Mine(idx) {
					continue
				}
				key := origin + "|" + v
				if path != "sink" && sinkBad[key] {
					r.Inconclusive("sink-fails-for-this-value")
					continue
				}
				c, out, ok := c8Run(c8Cell{path: path, origin: origin, value: v})
				if !ok {
					continue
				}
				ncells++
				r.Eval()
				cls := valueClass(v)
				r.Class("word-path:"+path, "word-class:"+cls)
				r.NonTrivial(c.Note, nil)
				if out.OK {
					continue
				}
				if path == "sink" {
					sinkBad[key] = true
				}
				r.Violate(rep.Sig{"path": path, "origin": origin, "class": cls, "kind": out.Kind, "word": v}, c.Note+"\n"+out.Msg+"\n--- source\n"+c.Files["main.tsh"], c)
			}
		}
	}
	r.SetExtra("n_matrix_cells", ncells)

	// random hostile strings through random paths
	hostile := c8Hostile
	checkRapid(t, r, func(t *rapid.T) {
		var v string
		if gen.Uniform(0, 2).Draw(t, "hostile") > 0 {
			v = hostile[gen.Uniform(0, len(hostile)-1).Draw(t, "hostile-const")]
			if gen.Uniform(0, 2).Draw(t, "embed") == 0 {
				v = []string{"a", "a ", ""}[gen.Uniform(0, 2).Draw(t, "pre")] + v + []string{"b", " b", ""}[gen.Uniform(0, 2).Draw(t, "post")]
			}
		} else {
			n := gen.Uniform(0, 12).Draw(t, "len")
			b := make([]byte, n)
			for i := range b {
				b[i] = chars[gen.Uniform(0, len(chars)-1).Draw(t, "ch")]
			}
			v = string(b)
		}
		origin := c8Origins[gen.Uniform(0, len(c8Origins)-1).Draw(t, "origin")]
		path := c8Paths[gen.Uniform(0, len(c8Paths)-1).Draw(t, "path")]
		// open findings C08-literal-{dollar,backquote,dquote,backslash}: source literals are interpolated by the shell.
		// The random search stays out of that region (counted); the matrix keeps covering it cell by cell.
		if (origin == "literal" || origin == "literal-direct" || origin == "raw-literal") && strings.ContainsAny(v, "$`\"\\") {
			r.Class("excluded:C08-literal-interpolation")
			origin = []string{"file", "command", "stdin", "stdin-prompt", "stdin-function", "stdin-last-line", "file-no-final-newline", "command-no-final-newline"}[gen.Uniform(0, 7).Draw(t, "runtime-origin")]
		}
		cell := c8Cell{path: path, origin: origin, value: v}
		c, out, ok := c8Run(cell)
		if !ok {
			t.Skip("value cannot exist at this origin")
		}
		cls := valueClass(v)
		r.Eval()
		r.Class("random-path:"+path, "random-origin:"+origin, "random-class:"+cls)
		r.NonTrivial(c.Note, nil)
		if out.OK {
			return
		}
		// attribute to the sink if the sink itself cannot carry the value
		if path != "sink" {
			if _, sout, sok := c8Run(c8Cell{path: "sink", origin: origin, value: v}); sok && !sout.OK {
				path = "sink"
				out = sout
			}
		}
		r.FailCase(t, rep.Sig{"path": path, "origin": origin, "class": cls, "kind": out.Kind}, c.Note+"\n"+out.Msg+"\n--- source\n"+c.Files["main.tsh"], c)
	})
}

func c8charOf(v, pos string) string {
	switch pos {
	case "first", "only":
		return v[:1]
	case "middle":
		return v[1:2]
	}
	return v[len(v)-1:]
}

func c0(s string) byte { return s[0] }

var _ = sort.Strings
