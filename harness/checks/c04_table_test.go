package checks

import (
	"fmt"

	"verif/harness/gen"
	"verif/harness/rep"
	"verif/harness/ts"
)

// Exhaustive position table of C04: for each statement kind x operand position a minimal program with
// distinct tracers in all positions; the reference interpreter supplies the expected trace.

type c4b struct{ n int64 }

func (b *c4b) ti(e ts.Expr) ts.Expr {
	b.n++
	return ts.Call{Name: "ti", Args: []ts.Expr{ts.IntLit{V: b.n}, e}, Rets: []ts.Type{ts.TInt}}
}
func (b *c4b) tb(e ts.Expr) ts.Expr {
	b.n++
	return ts.Call{Name: "tb", Args: []ts.Expr{ts.IntLit{V: b.n}, e}, Rets: []ts.Type{ts.TBool}}
}
func (b *c4b) tstr(e ts.Expr) ts.Expr {
	b.n++
	return ts.Call{Name: "ts", Args: []ts.Expr{ts.IntLit{V: b.n}, e}, Rets: []ts.Type{ts.TString}}
}
func (b *c4b) tn() ts.Expr {
	b.n++
	return ts.Call{Name: "tn", Args: []ts.Expr{ts.IntLit{V: b.n}}, Rets: []ts.Type{ts.TInt}}
}

func iv(n string) ts.Expr     { return ts.VarRef{Name: n, Ty: ts.TInt} }
func il(v int64) ts.Expr      { return ts.IntLit{V: v} }
func bl(v bool) ts.Expr       { return ts.BoolLit{V: v} }
func sl(v string) ts.Expr     { return ts.StrLit{V: v} }
func pr(e ...ts.Expr) ts.Stmt { return ts.Print{Args: e} }
func short(n string, ty ts.Type, e ts.Expr) ts.Stmt {
	return ts.VarDecl{Names: []string{n}, Ty: ty, Tys: []ts.Type{ty}, Vals: []ts.Expr{e}, Form: ts.DeclShort}
}

type c4prog struct {
	name  string
	stmts []ts.Stmt // statements placed after the prelude (top level or inside a function body)
	funcs []ts.Stmt // extra top-level function definitions
}

func c04TablePrograms() []c4prog {
	out := []c4prog{}
	add := func(name string, build func(b *c4b) ([]ts.Stmt, []ts.Stmt)) {
		b := &c4b{}
		st, fn := build(b)
		out = append(out, c4prog{name: name, stmts: st, funcs: fn})
	}
	for _, op := range []string{"+", "-", "*", "/", "%"} {
		op := op
		add("arith "+op, func(b *c4b) ([]ts.Stmt, []ts.Stmt) {
			return []ts.Stmt{pr(ts.Bin{Op: op, Ty: ts.TInt, L: b.ti(il(7)), R: b.ti(il(3))}), pr(ts.Bin{Op: op, Ty: ts.TInt, L: b.tn(), R: b.tn()})}, nil
		})
	}
	add("concat", func(b *c4b) ([]ts.Stmt, []ts.Stmt) {
		return []ts.Stmt{pr(ts.Bin{Op: "+", Ty: ts.TString, L: ts.Bin{Op: "+", Ty: ts.TString, L: b.tstr(sl("a")), R: b.tstr(sl("b"))}, R: b.tstr(sl("c"))})}, nil
	})
	for _, op := range []string{"==", "!=", "<", "<=", ">", ">="} {
		op := op
		add("compare-int "+op, func(b *c4b) ([]ts.Stmt, []ts.Stmt) {
			return []ts.Stmt{pr(ts.Cmp{Op: op, L: b.ti(il(2)), R: b.ti(il(5))}), pr(ts.Cmp{Op: op, L: b.tn(), R: b.tn()})}, nil
		})
	}
	add("compare-string-bool", func(b *c4b) ([]ts.Stmt, []ts.Stmt) {
		return []ts.Stmt{pr(ts.Cmp{Op: "==", L: b.tstr(sl("a")), R: b.tstr(sl("a"))}, ts.Cmp{Op: "!=", L: b.tb(bl(true)), R: b.tb(bl(false))})}, nil
	})
	for _, vals := range [][2]bool{{true, true}, {true, false}, {false, true}, {false, false}} {
		vals := vals
		add(fmt.Sprintf("logical %v %v", vals[0], vals[1]), func(b *c4b) ([]ts.Stmt, []ts.Stmt) {
			return []ts.Stmt{
				pr(ts.Logic{Op: "&&", L: b.tb(bl(vals[0])), R: b.tb(bl(vals[1]))}),
				pr(ts.Logic{Op: "||", L: b.tb(bl(vals[0])), R: b.tb(bl(vals[1]))}),
				pr(ts.Logic{Op: "&&", L: b.tb(bl(vals[0])), R: ts.Group{E: ts.Logic{Op: "||", L: b.tb(bl(vals[1])), R: b.tb(bl(vals[0]))}}}),
				pr(ts.Logic{Op: "||", L: ts.Logic{Op: "&&", L: b.tb(bl(vals[0])), R: b.tb(bl(vals[1]))}, R: b.tb(bl(vals[1]))}),
				pr(ts.Not{E: b.tb(bl(vals[0]))}),
			}, nil
		})
	}
	add("group-precedence", func(b *c4b) ([]ts.Stmt, []ts.Stmt) {
		return []ts.Stmt{pr(ts.Bin{Op: "*", Ty: ts.TInt, L: ts.Group{E: ts.Bin{Op: "+", Ty: ts.TInt, L: b.ti(il(1)), R: b.ti(il(2))}}, R: b.ti(il(3))}),
			pr(ts.Bin{Op: "+", Ty: ts.TInt, L: b.ti(il(1)), R: ts.Bin{Op: "*", Ty: ts.TInt, L: b.ti(il(2)), R: b.ti(il(3))}})}, nil
	})
	add("call-arguments", func(b *c4b) ([]ts.Stmt, []ts.Stmt) {
		f3 := ts.FuncDef{Name: "f3", Params: []ts.Param{{Name: "a", Ty: ts.TInt}, {Name: "b", Ty: ts.TString}, {Name: "c", Ty: ts.TBool}}, Rets: []ts.Type{ts.TInt},
			Body: []ts.Stmt{pr(sl("f3"), iv("a"), ts.VarRef{Name: "b", Ty: ts.TString}, ts.VarRef{Name: "c", Ty: ts.TBool}), ts.Return{Vals: []ts.Expr{iv("a")}}}}
		call := func() ts.Expr {
			return ts.Call{Name: "f3", Args: []ts.Expr{b.ti(il(1)), b.tstr(sl("x")), b.tb(bl(true))}, Rets: []ts.Type{ts.TInt}}
		}
		inner := ts.Call{Name: "f3", Args: []ts.Expr{ts.Call{Name: "f3", Args: []ts.Expr{b.ti(il(4)), b.tstr(sl("y")), b.tb(bl(false))}, Rets: []ts.Type{ts.TInt}}, b.tstr(sl("z")), b.tb(bl(true))}, Rets: []ts.Type{ts.TInt}}
		return []ts.Stmt{ts.ExprStmt{E: call()}, pr(call()), pr(ts.Bin{Op: "+", Ty: ts.TInt, L: call(), R: call()}), pr(inner)}, []ts.Stmt{f3}
	})
	add("slice-literal-elements", func(b *c4b) ([]ts.Stmt, []ts.Stmt) {
		s := ts.VarRef{Name: "sx", Ty: ts.TIntS}
		return []ts.Stmt{short("sx", ts.TIntS, ts.SliceLit{Elem: ts.TInt, Elems: []ts.Expr{b.ti(il(5)), b.tn(), b.ti(il(7))}}),
			pr(ts.Index{X: s, I: il(0), Ty: ts.TInt}, ts.Index{X: s, I: il(1), Ty: ts.TInt}, ts.Index{X: s, I: il(2), Ty: ts.TInt})}, nil
	})
	add("element-assign-and-read", func(b *c4b) ([]ts.Stmt, []ts.Stmt) {
		s := ts.VarRef{Name: "sx", Ty: ts.TIntS}
		return []ts.Stmt{short("sx", ts.TIntS, ts.SliceLit{Elem: ts.TInt, Elems: []ts.Expr{il(1), il(2), il(3)}}),
			ts.SetIndex{Name: "sx", Elem: ts.TInt, I: b.ti(il(1)), Val: b.ti(il(9))},
			ts.SetIndex{Name: "sx", Elem: ts.TInt, I: ts.Bin{Op: "-", Ty: ts.TInt, L: b.tn(), R: il(1)}, Val: b.tn()},
			pr(ts.Index{X: s, I: b.ti(il(0)), Ty: ts.TInt}, ts.Index{X: s, I: b.ti(il(1)), Ty: ts.TInt}, ts.Index{X: s, I: b.ti(il(2)), Ty: ts.TInt}),
			pr(ts.Len{X: s})}, nil
	})
	add("string-subscripts", func(b *c4b) ([]ts.Stmt, []ts.Stmt) {
		w := ts.VarRef{Name: "wx", Ty: ts.TString}
		return []ts.Stmt{short("wx", ts.TString, sl("abcdef")),
			pr(ts.Index{X: w, I: b.ti(il(2)), Ty: ts.TString}),
			pr(ts.Index{X: w, I: b.tn(), Ty: ts.TString}),
			pr(ts.Substr{X: w, Lo: b.ti(il(1)), Hi: b.ti(il(4))}),
			pr(ts.Substr{X: w, Lo: b.ti(il(2))}),
			pr(ts.Substr{X: w, Hi: b.ti(il(3))}),
			pr(ts.Substr{X: w, Lo: b.tn(), Hi: ts.Bin{Op: "+", Ty: ts.TInt, L: b.tn(), R: il(1)}}),
			pr(ts.Len{X: b.tstr(w)}, ts.Itoa{X: b.ti(il(42))})}, nil
	})
	add("print-and-definitions", func(b *c4b) ([]ts.Stmt, []ts.Stmt) {
		return []ts.Stmt{pr(b.ti(il(1)), b.tstr(sl("m")), b.tb(bl(true)), b.tn()),
			ts.VarDecl{Names: []string{"x1", "y1"}, Ty: ts.TInt, Tys: []ts.Type{ts.TInt, ts.TInt}, Vals: []ts.Expr{b.ti(il(1)), b.ti(il(2))}, Form: ts.DeclShort},
			ts.VarDecl{Names: []string{"x2", "y2"}, Ty: ts.TInt, Tys: []ts.Type{ts.TInt, ts.TInt}, Vals: []ts.Expr{b.tn(), b.tn()}, Form: ts.DeclVarTypeValue},
			ts.VarDecl{Names: []string{"x3"}, Ty: ts.TString, Tys: []ts.Type{ts.TString}, Vals: []ts.Expr{b.tstr(sl("q"))}, Form: ts.DeclVarValue},
			ts.Assign{Names: []string{"x1", "y1"}, Vals: []ts.Expr{b.ti(iv("y1")), b.ti(iv("x1"))}},
			ts.Assign{Names: []string{"x2"}, Vals: []ts.Expr{b.tn()}},
			ts.OpAssign{Name: "x2", Ty: ts.TInt, Op: "+", Val: b.ti(il(5))},
			ts.OpAssign{Name: "x3", Ty: ts.TString, Op: "+", Val: b.tstr(sl("r"))},
			pr(iv("x1"), iv("y1"), iv("x2"), iv("y2"), ts.VarRef{Name: "x3", Ty: ts.TString})}, nil
	})
	add("return-values", func(b *c4b) ([]ts.Stmt, []ts.Stmt) {
		r2 := ts.FuncDef{Name: "r2", Rets: []ts.Type{ts.TInt, ts.TString}, Body: []ts.Stmt{ts.Return{Vals: []ts.Expr{b.ti(il(1)), b.tstr(sl("s"))}}}}
		r1 := ts.FuncDef{Name: "r1", Params: []ts.Param{{Name: "c", Ty: ts.TBool}}, Rets: []ts.Type{ts.TInt},
			Body: []ts.Stmt{ts.If{Cond: ts.VarRef{Name: "c", Ty: ts.TBool}, Then: []ts.Stmt{ts.Return{Vals: []ts.Expr{b.tn()}}}}, ts.Return{Vals: []ts.Expr{ts.Bin{Op: "+", Ty: ts.TInt, L: b.ti(il(2)), R: b.ti(il(3))}}}}}
		return []ts.Stmt{
			ts.VarDecl{Names: []string{"p1", "p2"}, Ty: ts.TInt, Tys: []ts.Type{ts.TInt, ts.TString}, Vals: []ts.Expr{ts.Call{Name: "r2", Rets: []ts.Type{ts.TInt, ts.TString}}}, Form: ts.DeclShort},
			pr(iv("p1"), ts.VarRef{Name: "p2", Ty: ts.TString}),
			pr(ts.Call{Name: "r1", Args: []ts.Expr{b.tb(bl(true))}, Rets: []ts.Type{ts.TInt}}, ts.Call{Name: "r1", Args: []ts.Expr{b.tb(bl(false))}, Rets: []ts.Type{ts.TInt}}),
			ts.Assign{Names: []string{"p1", "p2"}, Vals: []ts.Expr{ts.Call{Name: "r2", Rets: []ts.Type{ts.TInt, ts.TString}}}},
			pr(iv("p1"), ts.VarRef{Name: "p2", Ty: ts.TString})}, []ts.Stmt{r2, r1}
	})
	for k := 0; k < 4; k++ {
		k := k
		add(fmt.Sprintf("if-chain taken=%d", k), func(b *c4b) ([]ts.Stmt, []ts.Stmt) {
			c := func(i int) ts.Expr { return b.tb(bl(i == k)) }
			return []ts.Stmt{ts.If{Cond: c(0), Then: []ts.Stmt{pr(sl("b0"), b.ti(il(0)))},
				Elifs: []ts.ElseIf{{Cond: c(1), Body: []ts.Stmt{pr(sl("b1"), b.ti(il(1)))}}, {Cond: ts.Logic{Op: "||", L: c(2), R: b.tb(bl(false))}, Body: []ts.Stmt{pr(sl("b2"))}}},
				Else:  []ts.Stmt{pr(sl("else"), b.ti(il(9)))}, HasElse: true}, pr(sl("after"))}, nil
		})
	}
	add("for-clauses", func(b *c4b) ([]ts.Stmt, []ts.Stmt) {
		return []ts.Stmt{
			ts.For{Kind: ts.ForClause, Init: short("i1", ts.TInt, b.ti(il(0))), Cond: b.tb(ts.Cmp{Op: "<", L: iv("i1"), R: b.ti(il(3))}), Post: ts.OpAssign{Name: "i1", Ty: ts.TInt, Op: "+", Val: b.ti(il(1))},
				Body: []ts.Stmt{pr(sl("body"), iv("i1")), ts.If{Cond: ts.Cmp{Op: "==", L: iv("i1"), R: il(1)}, Then: []ts.Stmt{ts.Continue{}}}, pr(sl("tail"), iv("i1"))}},
			short("j1", ts.TInt, il(0)),
			ts.For{Kind: ts.ForCond, Cond: b.tb(ts.Cmp{Op: "<", L: iv("j1"), R: il(2)}), Body: []ts.Stmt{ts.IncDec{Name: "j1", Inc: true}, pr(sl("w"), iv("j1"))}},
			short("k1", ts.TInt, il(0)),
			ts.For{Kind: ts.ForEver, Body: []ts.Stmt{ts.IncDec{Name: "k1", Inc: true}, ts.If{Cond: b.tb(ts.Cmp{Op: ">", L: iv("k1"), R: il(2)}), Then: []ts.Stmt{ts.Break{}}}, pr(sl("e"), iv("k1"))}}}, nil
	})
	// conditions whose operand is a BUILTIN applied directly to a call (len(f()), itoa(f())): the call runs once per evaluation
	// of the condition, like any other operand - a loop condition once per iteration
	add("conditions-over-builtins", func(b *c4b) ([]ts.Stmt, []ts.Stmt) {
		mk := ts.FuncDef{Name: "mk", Rets: []ts.Type{ts.TIntS}, Body: []ts.Stmt{pr(sl("mk")), ts.Return{Vals: []ts.Expr{ts.SliceLit{Elem: ts.TInt, Elems: []ts.Expr{il(1), il(2), il(3)}}}}}}
		mkc := func() ts.Expr { return ts.Call{Name: "mk", Rets: []ts.Type{ts.TIntS}} }
		return []ts.Stmt{
			short("i2", ts.TInt, il(0)),
			ts.For{Kind: ts.ForCond, Cond: ts.Cmp{Op: "<", L: iv("i2"), R: ts.Len{X: b.tstr(sl("abc"))}}, Body: []ts.Stmt{ts.IncDec{Name: "i2", Inc: true}, pr(sl("b"), iv("i2"))}},
			ts.For{Kind: ts.ForClause, Init: short("j2", ts.TInt, il(0)), Cond: ts.Cmp{Op: "<", L: iv("j2"), R: ts.Len{X: mkc()}}, Post: ts.IncDec{Name: "j2", Inc: true}, Body: []ts.Stmt{pr(sl("c"), iv("j2"))}},
			ts.For{Kind: ts.ForClause, Init: short("k2", ts.TInt, il(0)), Cond: ts.Cmp{Op: ">", L: ts.Len{X: mkc()}, R: iv("k2")}, Post: ts.IncDec{Name: "k2", Inc: true}, Body: []ts.Stmt{pr(sl("d"), iv("k2"))}},
			ts.For{Kind: ts.ForClause, Init: short("m2", ts.TInt, il(0)), Cond: ts.Cmp{Op: "!=", L: ts.Itoa{X: b.ti(iv("m2"))}, R: sl("2")}, Post: ts.IncDec{Name: "m2", Inc: true}, Body: []ts.Stmt{pr(sl("e"), iv("m2"))}},
			ts.If{Cond: ts.Cmp{Op: "==", L: ts.Len{X: b.tstr(sl("ab"))}, R: il(5)}, Then: []ts.Stmt{pr(sl("then"))},
				Elifs: []ts.ElseIf{{Cond: ts.Cmp{Op: "==", L: ts.Len{X: mkc()}, R: il(3)}, Body: []ts.Stmt{pr(sl("elif"))}}}, Else: []ts.Stmt{pr(sl("else"))}, HasElse: true},
			pr(ts.Len{X: mkc()}, ts.Itoa{X: ts.Len{X: b.tstr(sl("xyz"))}}),
		}, []ts.Stmt{mk}
	})
	// loops that are LEFT early (return from an inner loop, break of an outer loop) and entered again: every entry starts
	// with the initialisation and the condition, never with the increment of the previous visit
	add("loops-re-entered", func(b *c4b) ([]ts.Stmt, []ts.Stmt) {
		find := ts.FuncDef{Name: "find", Params: []ts.Param{{Name: "k", Ty: ts.TInt}}, Rets: []ts.Type{ts.TInt}, Body: []ts.Stmt{
			ts.For{Kind: ts.ForClause, Init: short("fo", ts.TInt, b.ti(il(0))), Cond: b.tb(ts.Cmp{Op: "<", L: iv("fo"), R: il(3)}), Post: ts.OpAssign{Name: "fo", Ty: ts.TInt, Op: "+", Val: b.ti(il(1))},
				Body: []ts.Stmt{
					ts.For{Kind: ts.ForClause, Init: short("fi", ts.TInt, b.ti(il(0))), Cond: b.tb(ts.Cmp{Op: "<", L: iv("fi"), R: il(2)}), Post: ts.IncDec{Name: "fi", Inc: true},
						Body: []ts.Stmt{ts.If{Cond: ts.Cmp{Op: "==", L: ts.Bin{Op: "+", Ty: ts.TInt, L: ts.Bin{Op: "*", Ty: ts.TInt, L: iv("fo"), R: il(2)}, R: iv("fi")}, R: iv("k")},
							Then: []ts.Stmt{ts.Return{Vals: []ts.Expr{ts.Bin{Op: "+", Ty: ts.TInt, L: ts.Bin{Op: "*", Ty: ts.TInt, L: iv("fo"), R: il(10)}, R: iv("fi")}}}}}}}}},
			ts.Return{Vals: []ts.Expr{il(-1)}}}}
		call := func(k int64) ts.Stmt {
			return pr(sl("find"), ts.Call{Name: "find", Args: []ts.Expr{il(k)}, Rets: []ts.Type{ts.TInt}})
		}
		outer := func(name string) ts.Stmt {
			return ts.For{Kind: ts.ForClause, Init: short(name, ts.TInt, b.ti(il(0))), Cond: b.tb(ts.Cmp{Op: "<", L: iv(name), R: il(3)}), Post: ts.OpAssign{Name: name, Ty: ts.TInt, Op: "+", Val: b.ti(il(1))},
				Body: []ts.Stmt{ts.If{Cond: ts.Cmp{Op: "==", L: iv(name), R: il(1)}, Then: []ts.Stmt{ts.Break{}}}, pr(sl("in"), iv(name))}}
		}
		twice := ts.For{Kind: ts.ForClause, Init: short("rep", ts.TInt, il(0)), Cond: ts.Cmp{Op: "<", L: iv("rep"), R: il(2)}, Post: ts.IncDec{Name: "rep", Inc: true}, Body: []ts.Stmt{outer("ro")}}
		return []ts.Stmt{call(1), call(1), call(3), call(0), call(9), twice}, []ts.Stmt{find}
	})
	add("switch-cases", func(b *c4b) ([]ts.Stmt, []ts.Stmt) {
		mk := func(tag int64) ts.Stmt {
			return ts.Switch{Tag: il(tag), Cases: []ts.Case{{E: b.ti(il(1)), Body: []ts.Stmt{pr(sl("one"))}}, {Default: true, Body: []ts.Stmt{pr(sl("default"))}}, {E: b.ti(il(2)), Body: []ts.Stmt{pr(sl("two"))}}, {E: ts.Bin{Op: "+", Ty: ts.TInt, L: b.tn(), R: il(0)}, Body: []ts.Stmt{pr(sl("n"))}}}}
		}
		return []ts.Stmt{mk(1), mk(2), mk(7),
			ts.Switch{Cases: []ts.Case{{E: b.tb(bl(false)), Body: []ts.Stmt{pr(sl("c0"))}}, {E: b.tb(bl(true)), Body: []ts.Stmt{pr(sl("c1"))}}, {E: b.tb(bl(true)), Body: []ts.Stmt{pr(sl("c2"))}}}}}, nil
	})
	// builtins applied directly to calls, in every kind of statement position (printed value, operand, definition, assignment,
	// slice element, argument, returned value, case expression, copy source): the call runs once, where the builtin stands
	add("builtins-over-calls", func(b *c4b) ([]ts.Stmt, []ts.Stmt) {
		mk := ts.FuncDef{Name: "mk3", Rets: []ts.Type{ts.TIntS}, Body: []ts.Stmt{pr(sl("mk3")), ts.Return{Vals: []ts.Expr{ts.SliceLit{Elem: ts.TInt, Elems: []ts.Expr{il(4), il(5), il(6)}}}}}}
		mkc := func() ts.Expr { return ts.Call{Name: "mk3", Rets: []ts.Type{ts.TIntS}} }
		lenS := func(v string) ts.Expr { return ts.Len{X: b.tstr(sl(v))} }
		take := ts.FuncDef{Name: "take", Params: []ts.Param{{Name: "a", Ty: ts.TInt}, {Name: "b", Ty: ts.TString}, {Name: "c", Ty: ts.TBool}}, Rets: []ts.Type{ts.TInt},
			Body: []ts.Stmt{pr(sl("take"), iv("a"), ts.VarRef{Name: "b", Ty: ts.TString}, ts.VarRef{Name: "c", Ty: ts.TBool}), ts.Return{Vals: []ts.Expr{iv("a")}}}}
		give := ts.FuncDef{Name: "give", Rets: []ts.Type{ts.TInt, ts.TString}, Body: []ts.Stmt{ts.Return{Vals: []ts.Expr{ts.Len{X: mkc()}, ts.Itoa{X: b.ti(il(9))}}}}}
		return []ts.Stmt{
			pr(ts.Len{X: mkc()}, ts.Itoa{X: b.ti(il(7))}, lenS("hello")),
			short("bx", ts.TInt, ts.Bin{Op: "+", Ty: ts.TInt, L: ts.Len{X: mkc()}, R: lenS("ab")}),
			ts.Assign{Names: []string{"bx"}, Vals: []ts.Expr{ts.Bin{Op: "*", Ty: ts.TInt, L: lenS("abc"), R: ts.Len{X: mkc()}}}},
			ts.OpAssign{Name: "bx", Ty: ts.TInt, Op: "+", Val: ts.Len{X: mkc()}},
			short("bs", ts.TIntS, ts.SliceLit{Elem: ts.TInt, Elems: []ts.Expr{ts.Len{X: mkc()}, b.ti(il(2)), lenS("xy")}}),
			pr(iv("bx"), ts.Len{X: ts.VarRef{Name: "bs", Ty: ts.TIntS}}),
			pr(ts.Call{Name: "take", Args: []ts.Expr{ts.Len{X: mkc()}, ts.Itoa{X: b.ti(il(3))}, ts.Cmp{Op: "==", L: lenS("q"), R: il(1)}}, Rets: []ts.Type{ts.TInt}}),
			ts.VarDecl{Names: []string{"g1", "g2"}, Ty: ts.TInt, Tys: []ts.Type{ts.TInt, ts.TString}, Vals: []ts.Expr{ts.Call{Name: "give", Rets: []ts.Type{ts.TInt, ts.TString}}}, Form: ts.DeclShort},
			pr(iv("g1"), ts.VarRef{Name: "g2", Ty: ts.TString}),
			ts.Switch{Tag: iv("g1"), Cases: []ts.Case{{E: lenS("ab"), Body: []ts.Stmt{pr(sl("two"))}}, {E: ts.Len{X: mkc()}, Body: []ts.Stmt{pr(sl("three"))}}, {Default: true, Body: []ts.Stmt{pr(sl("other"))}}}},
			ts.VarDecl{Names: []string{"bd"}, Ty: ts.TIntS, Tys: []ts.Type{ts.TIntS}, Form: ts.DeclVarType},
			short("bn", ts.TInt, ts.Copy{Dst: ts.VarRef{Name: "bd", Ty: ts.TIntS}, Src: mkc()}),
			pr(iv("bn"), ts.Len{X: ts.VarRef{Name: "bd", Ty: ts.TIntS}}),
		}, []ts.Stmt{mk, take, give}
	})
	// the arguments of the file builtins are operands like any other: path, data, append flag in source order, once each
	add("file-builtin-arguments", func(b *c4b) ([]ts.Stmt, []ts.Stmt) {
		return []ts.Stmt{
			ts.Write{P: b.tstr(sl("c4a.txt")), D: b.tstr(sl("one"))},
			ts.Write{P: b.tstr(sl("c4a.txt")), D: b.tstr(sl("two")), A: b.tb(bl(true))},
			ts.Write{P: b.tstr(sl("c4b.txt")), D: ts.Bin{Op: "+", Ty: ts.TString, L: b.tstr(sl("x")), R: b.tstr(sl("y"))}, A: b.tb(bl(false))},
			pr(ts.Read{P: b.tstr(sl("c4a.txt"))}, ts.Exists{P: b.tstr(sl("c4b.txt"))}, ts.Exists{P: b.tstr(sl("c4none.txt"))}),
			ts.Write{P: ts.Bin{Op: "+", Ty: ts.TString, L: b.tstr(sl("c4")), R: b.tstr(sl("c.txt"))}, D: ts.Read{P: b.tstr(sl("c4b.txt"))}, A: ts.Exists{P: b.tstr(sl("c4a.txt"))}},
			pr(ts.Read{P: sl("c4c.txt")}, ts.Cmp{Op: "==", L: ts.Read{P: b.tstr(sl("c4b.txt"))}, R: ts.Read{P: b.tstr(sl("c4c.txt"))}}),
		}, nil
	})
	add("copy-range-panic", func(b *c4b) ([]ts.Stmt, []ts.Stmt) {
		mk := ts.FuncDef{Name: "mkslice", Params: []ts.Param{{Name: "n", Ty: ts.TInt}}, Rets: []ts.Type{ts.TIntS}, Body: []ts.Stmt{pr(sl("mk"), iv("n")), ts.Return{Vals: []ts.Expr{ts.SliceLit{Elem: ts.TInt, Elems: []ts.Expr{iv("n"), iv("n")}}}}}}
		return []ts.Stmt{ts.VarDecl{Names: []string{"dst"}, Ty: ts.TIntS, Tys: []ts.Type{ts.TIntS}, Form: ts.DeclVarType},
			pr(ts.Copy{Dst: ts.VarRef{Name: "dst", Ty: ts.TIntS}, Src: ts.Call{Name: "mkslice", Args: []ts.Expr{b.ti(il(4))}, Rets: []ts.Type{ts.TIntS}}}),
			pr(ts.Len{X: ts.VarRef{Name: "dst", Ty: ts.TIntS}}, ts.Index{X: ts.VarRef{Name: "dst", Ty: ts.TIntS}, I: b.ti(il(1)), Ty: ts.TInt}),
			ts.Panic{E: b.tstr(ts.Bin{Op: "+", Ty: ts.TString, L: b.tstr(sl("pa")), R: b.tstr(sl("nic"))})},
			pr(sl("unreachable"))}, []ts.Stmt{mk}
	})
	return out
}

func runC04Table(r *rep.R, e rep.Env) {
	n := 0
	for _, p := range c04TablePrograms() {
		for _, inFunc := range []bool{false, true} {
			n++
			if !e.Mine(n) {
				continue
			}
			stmts := append([]ts.Stmt{}, gen.TracerPrelude()...)
			stmts = append(stmts, p.funcs...)
			ctx := "top"
			if inFunc {
				ctx = "function"
				stmts = append(stmts, ts.FuncDef{Name: "wrapper", Body: p.stmts}, ts.ExprStmt{E: ts.Call{Name: "wrapper"}})
			} else {
				stmts = append(stmts, p.stmts...)
			}
			prog := ts.Single(stmts)
			r.Class("table:" + p.name)
			diffProgram(tableSkipper{r, p.name + "/" + ctx}, r, prog, diffOpts{Property: "C04", MaxSteps: 5000, Tags: map[string]int{"table": 1}, Enumerated: true,
				NonTrivial: func(map[string]int, map[string]int) bool { return true },
				SigExtra:   func(o execOutcome, _ map[string]int) rep.Sig { return rep.Sig{"table": p.name, "context": ctx} }})
		}
	}
	r.SetExtra("n_position_table_programs", n)
}

// tableSkipper adapts the enumeration to diffProgram: a failing cell is recorded as a violation, not a rapid failure.
type tableSkipper struct {
	r    *rep.R
	name string
}

func (s tableSkipper) Skip(args ...any) {
	s.r.HarnessError("C04 table program %s is outside the interpreter's domain: %v", s.name, args)
}
func (s tableSkipper) Fatalf(format string, args ...any) {}
