package checks

import (
	"encoding/json"
	"fmt"
	"os"
	"path/filepath"
	"strings"
	"testing"
	"time"

	"github.com/monstermichl/typeshell/transpiler"
	"pgregory.net/rapid"
	"verif/harness/gen"
	"verif/harness/rep"
	"verif/harness/run"
	"verif/harness/ts"
)

// C14 — transpilation is a pure, repeatable function of source content and target.

type c14Prog struct {
	Files map[string]string `json:"files"`
	Main  string            `json:"main"`
	Kind  string            `json:"kind"`
	// Alt: other contents for some files of the program (version 1 of the tree; version 0 = Files). A step names the version
	// that is on disk when it transpiles: files are rewritten IN PLACE between calls on the same transpiler object.
	Alt map[string]string `json:"alt,omitempty"`
}

type c14Step struct {
	Prog    int    `json:"prog"`
	Target  string `json:"target"`
	Version int    `json:"version,omitempty"`
}

type purityCase struct {
	Kind      string    `json:"kind"` // "purity"
	Property  string    `json:"property"`
	Progs     []c14Prog `json:"progs"`
	Steps     []c14Step `json:"steps"`
	Processes int       `json:"processes"`
	Relocate  bool      `json:"relocate"`
}

func transpileWith(t *transpilerObj, path string, tg run.Target) (res run.TResult) {
	defer func() {
		if p := recover(); p != nil {
			res = run.TResult{Panic: fmt.Sprint(p)}
		}
	}()
	s, err := t.Transpile(path, run.NewConverter(tg))
	return run.TResult{Script: s, Err: err}
}

// transpilerObj gives the value returned by transpiler.New() a name we can take the address of.
type transpilerObj = struct {
	Transpile func(path string, c transpiler.Converter) (string, error)
}

func newTranspilerObj() *transpilerObj {
	t := transpiler.New()
	return &transpilerObj{Transpile: t.Transpile}
}

func obsOf(r run.TResult, dir string) string {
	if r.Panic != "" {
		return "PANIC " + r.Panic
	}
	if r.Err != nil {
		return "ERR " + strings.ReplaceAll(r.Err.Error(), dir, "{DIR}")
	}
	return "OK " + r.Script
}

// checkPurity executes the history and the process/relocation comparisons.
func checkPurity(c purityCase) (kind string, msg string) {
	root := run.Scratch("pure")
	defer os.RemoveAll(root)
	dirA := filepath.Join(root, "tree")
	paths := make([]string, len(c.Progs))
	for i, p := range c.Progs {
		d := filepath.Join(dirA, fmt.Sprintf("p%d", i))
		run.WriteFiles(d, p.Files)
		paths[i] = filepath.Join(d, p.Main)
	}
	// setVersion puts version v of program i on disk (in place)
	setVersion := func(i, v int) {
		d := filepath.Join(dirA, fmt.Sprintf("p%d", i))
		run.WriteFiles(d, c.Progs[i].Files)
		if v == 1 {
			run.WriteFiles(d, c.Progs[i].Alt)
		}
	}
	// (1) history on one transpiler object
	tobj := newTranspilerObj()
	model := map[string]string{}
	for n, st := range c.Steps {
		key := fmt.Sprintf("%d/%s", st.Prog, st.Target)
		if len(c.Progs[st.Prog].Alt) > 0 {
			setVersion(st.Prog, st.Version)
			key = fmt.Sprintf("%d/%s/v%d", st.Prog, st.Target, st.Version)
		}
		obs := obsOf(transpileWith(tobj, paths[st.Prog], run.Target(st.Target)), dirA)
		if strings.HasPrefix(obs, "PANIC") {
			return "panic", fmt.Sprintf("step %d (%s): %s", n, key, obs)
		}
		if prev, ok := model[key]; ok {
			if prev != obs {
				return "repeat", fmt.Sprintf("step %d: program %d (%s) for target %s gave different bytes than at its first transpilation in this history\n--- first\n%s\n--- now\n%s", n, st.Prog, c.Progs[st.Prog].Kind, st.Target, clip(prev), clip(obs))
			}
		} else {
			model[key] = obs
		}
	}
	// a fresh object must agree with the history's observations
	for key, prev := range model {
		var pi, ver int
		var tg string
		parts := strings.Split(key, "/")
		fmt.Sscanf(parts[0], "%d", &pi)
		tg = parts[1]
		if len(parts) > 2 {
			fmt.Sscanf(parts[2], "v%d", &ver)
			setVersion(pi, ver)
		}
		obs := obsOf(transpileWith(newTranspilerObj(), paths[pi], run.Target(tg)), dirA)
		if obs != prev {
			return "interleave", fmt.Sprintf("program %d (%s), target %s: a fresh transpiler object gives different bytes than the shared one gave inside the history\n--- history\n%s\n--- fresh\n%s", pi, c.Progs[pi].Kind, tg, clip(prev), clip(obs))
		}
	}
	// the processes and the relocated copy see version 0 of every program; their observations are compared with version 0
	for i := range c.Progs {
		if len(c.Progs[i].Alt) > 0 {
			setVersion(i, 0)
			for _, tg := range []string{"bash", "batch"} {
				if v, ok := model[fmt.Sprintf("%d/%s/v0", i, tg)]; ok {
					model[fmt.Sprintf("%d/%s", i, tg)] = v
				}
			}
		}
	}
	// (2) fresh processes (new map seeds)
	for k := 0; k < c.Processes; k++ {
		w, err := run.StartWorker()
		if err != nil {
			return "harness", err.Error()
		}
		for i := range c.Progs {
			resp, outcome := w.Do(run.WReq{Path: paths[i], Targets: []string{"bash", "batch"}, WantScript: true}, 30*time.Second)
			if outcome != "ok" {
				w.Kill()
				return "process", fmt.Sprintf("worker %d: %s on program %d", k, outcome, i)
			}
			for _, rr := range resp.Results {
				key := fmt.Sprintf("%d/%s", i, rr.Target)
				obs := "OK " + rr.Script
				if rr.Verdict != "accept" {
					obs = "ERR " + strings.ReplaceAll(rr.Err, dirA, "{DIR}")
				}
				prev, ok := model[key]
				if !ok {
					model[key] = obs
					continue
				}
				if prev != obs {
					w.Kill()
					return "process", fmt.Sprintf("program %d (%s), target %s: process %d returned different bytes\n--- in-process\n%s\n--- other process\n%s", i, c.Progs[i].Kind, rr.Target, k, clip(prev), clip(obs))
				}
			}
		}
		w.Kill()
	}
	// (3) relocated copy of the tree, different directory name and depth, different cwd
	if c.Relocate {
		dirB := filepath.Join(root, "elsewhere", "deeper", "copy-of-tree")
		w, err := run.StartWorker()
		if err != nil {
			return "harness", err.Error()
		}
		defer w.Kill()
		for i, p := range c.Progs {
			d := filepath.Join(dirB, fmt.Sprintf("p%d", i))
			run.WriteFiles(d, p.Files)
			resp, outcome := w.Do(run.WReq{Path: filepath.Join(d, p.Main), Targets: []string{"bash", "batch"}, WantScript: true, Chdir: d}, 30*time.Second)
			if outcome != "ok" {
				return "relocate", fmt.Sprintf("%s on relocated program %d", outcome, i)
			}
			for _, rr := range resp.Results {
				key := fmt.Sprintf("%d/%s", i, rr.Target)
				prev, ok := model[key]
				if !ok {
					continue
				}
				if rr.Verdict == "accept" {
					if prev != "OK "+rr.Script {
						return "relocate", fmt.Sprintf("program %d (%s), target %s: the relocated tree gives different bytes\n--- original place\n%s\n--- relocated\n%s", i, c.Progs[i].Kind, rr.Target, clip(prev), clip("OK "+rr.Script))
					}
				} else if !strings.HasPrefix(prev, "ERR") {
					return "relocate", fmt.Sprintf("program %d, target %s: accepted in one place, rejected in the other: %s", i, rr.Target, rr.Err)
				}
			}
		}
	}
	// (4) the original tree again, from a working directory that holds decoys: an entry spelled like every import path of the
	// programs (strings, os, helper.tsh, sub/x.tsh ...) with other content. Imports are resolved beside the importing file and
	// in std, never in the directory the process happens to run in.
	if c.Relocate {
		decoys := filepath.Join(root, "cwd-with-decoys")
		os.MkdirAll(decoys, 0o755)
		for _, p := range c.Progs {
			for _, content := range p.Files {
				for _, m := range reImportPath.FindAllStringSubmatch(content, -1) {
					rel := filepath.Clean(m[1])
					if filepath.IsAbs(rel) || strings.HasPrefix(rel, "..") || rel == "." {
						continue
					}
					// (a path that collides with an earlier decoy - a file where a directory is needed - is skipped)
					dp := filepath.Join(decoys, rel)
					if os.MkdirAll(filepath.Dir(dp), 0o755) == nil {
						os.WriteFile(dp, []byte("func Decoy() int {\n\treturn 0\n}\nprint(\"decoy\")\n"), 0o644)
					}
				}
			}
		}
		w, err := run.StartWorker()
		if err != nil {
			return "harness", err.Error()
		}
		defer w.Kill()
		for i := range c.Progs {
			resp, outcome := w.Do(run.WReq{Path: paths[i], Targets: []string{"bash", "batch"}, WantScript: true, Chdir: decoys}, 30*time.Second)
			if outcome != "ok" {
				return "cwd", fmt.Sprintf("%s on program %d run from a directory with decoys", outcome, i)
			}
			for _, rr := range resp.Results {
				prev, ok := model[fmt.Sprintf("%d/%s", i, rr.Target)]
				if !ok {
					continue
				}
				obs := "OK " + rr.Script
				if rr.Verdict != "accept" {
					obs = "ERR " + strings.ReplaceAll(rr.Err, dirA, "{DIR}")
				}
				if prev != obs {
					return "cwd", fmt.Sprintf("program %d (%s), target %s: run from a working directory that holds files spelled like the import paths, the result differs\n--- elsewhere\n%s\n--- from the directory with decoys\n%s", i, c.Progs[i].Kind, rr.Target, clip(prev), clip(obs))
				}
			}
		}
	}
	return "", ""
}

func clip(s string) string {
	if len(s) > 1500 {
		return s[:1500] + "…"
	}
	return s
}

func init() {
	replayFuncs["purity"] = func(raw json.RawMessage) (bool, string) {
		var c purityCase
		json.Unmarshal(raw, &c)
		k, msg := checkPurity(c)
		return k == "", k + ": " + msg
	}
}

const c14Helper = "func helper(a int) int {\n\treturn a\n}\nfunc Twice(a int) int {\n\treturn helper(a) * 2\n}\nfunc Name() string {\n\treturn \"h\"\n}\nfunc Unused() int {\n\treturn 1\n}\nCounter := 3\n"
const c14Other = "func Name() string {\n\treturn \"o\"\n}\nfunc Twice(a int) int {\n\treturn a + a\n}\n"

func TestC14(t *testing.T) {
	r, e := start(t, "C14",
		"a pool of 3-6 programs per case (generated single-file programs, multi-file programs with single/grouped imports of local files and of std, a rejected program, a program using every helper routine, a program importing two files with identical bytes) and a random history of 6-30 Transpile calls over programs x {bash, batch} on ONE transpiler object (fresh converter per call), during which imported files of the multi-file programs are rewritten in place between two contents; then the same programs in freshly started processes (new map iteration seeds) from a relocated copy of the tree with another cwd, and from a working directory that holds decoy files spelled like every import path of the programs (strings, os, helper.tsh ...). Oracle: every observation of the same (content, target) is byte-identical (error texts modulo the directory). Non-trivial = histories in which a (program, target) recurs after at least two other transpilations including one of the other target and a failing one; distinct by history + sources.",
		[]string{"self-comparison is the property here: history, process and location must be irrelevant", "process instances are sampled (quick: 2 per case, thorough: 6), not enumerated"})
	defer r.Flush()
	gcfg := gen.Cfg{MaxStmts: 14, MaxDepth: 3, ExprDepth: 3, Funcs: true, MaxFuncs: 3, Slices: true, StrOps: true, LoopBudget: 8, IO: true, Panics: true, ErrSpell: true, BareExpr: true}
	procs := e.Pick(2, 6)
	checkRapid(t, r, func(t *rapid.T) {
		np := gen.Uniform(3, 6).Draw(t, "nprogs")
		c := purityCase{Kind: "purity", Property: "C14", Processes: procs, Relocate: true}
		hasBad := false
		for i := 0; i < np; i++ {
			switch k := gen.Uniform(0, 7).Draw(t, "prog-kind"); k {
			case 7:
				// two imported files with identical bytes at different paths (their names in the script must not depend on
				// where the tree lies), each importing its own neighbour
				twin := "import nb \"nb.tsh\"\nfunc Who() string {\n\treturn nb.Name()\n}\ncount := 0\nfunc Next() int {\n\tcount = count + 1\n\treturn count\n}\n"
				c.Progs = append(c.Progs, c14Prog{Kind: "identical-twins", Main: "main.tsh", Files: map[string]string{
					"main.tsh":     "import (\n\ta \"lib/twin.tsh\"\n\tb \"vendor/twin.tsh\"\n)\nprint(a.Who(), b.Who(), a.Next(), b.Next())\n",
					"lib/twin.tsh": twin, "vendor/twin.tsh": twin, "lib/nb.tsh": "func Name() string {\n\treturn \"lib\"\n}\n", "vendor/nb.tsh": "func Name() string {\n\treturn \"vendor\"\n}\n"}})
			case 6:
				// numbered temporaries (multi-assignment), helper variables and loop flags: any counter that survives a call shows here
				c.Progs = append(c.Progs, c14Prog{Kind: "counters", Main: "main.tsh", Files: map[string]string{"main.tsh": "a, b, c := 1, 2, 3\na, b = b, a\nfor i := 0; i < 2; i++ {\n\tb, c = c, b\n}\nfunc f(x int) int {\n\tp, q := x, 1\n\tp, q = q, p\n\treturn p + q\n}\nprint(a, b, c, f(a))\n"}})
			case 0, 1:
				stmts, _ := gen.Stmts(t, gcfg)
				c.Progs = append(c.Progs, c14Prog{Files: map[string]string{"main.tsh": ts.StmtsString(stmts)}, Main: "main.tsh", Kind: "generated"})
			case 2:
				c.Progs = append(c.Progs, c14Prog{Kind: "imports", Main: "main.tsh", Files: map[string]string{
					"main.tsh":       "import (\n\thp \"lib/helper.tsh\"\n\tot \"other.tsh\"\n\t\"strings\"\n)\nprint(hp.Twice(2), ot.Twice(3), hp.Name() + ot.Name(), strings.Repeat(\"ab\", 2))\n",
					"lib/helper.tsh": c14Helper, "other.tsh": c14Other},
					Alt: map[string]string{"lib/helper.tsh": strings.Replace(c14Helper, "return", "print(\"edited\")\n\treturn", 1)}})
			case 3:
				c.Progs = append(c.Progs, c14Prog{Kind: "diamond", Main: "main.tsh", Files: map[string]string{
					"main.tsh": "import (\n\ta \"a.tsh\"\n\tb \"b.tsh\"\n)\nprint(a.Fa(), b.Fb())\n",
					"a.tsh":    "import c \"c.tsh\"\nfunc Fa() int {\n\treturn c.Twice(1)\n}\n", "b.tsh": "import c \"c.tsh\"\nfunc Fb() int {\n\treturn c.Twice(2)\n}\n", "c.tsh": c14Other},
					Alt: map[string]string{"c.tsh": strings.Replace(c14Other, "return", "print(\"edited\")\n\treturn", 1)}})
			case 4:
				if gen.Uniform(0, 1).Draw(t, "late-failure") == 1 {
					// a program that is rejected late: the converter has already emitted (and counted) a lot when it fails
					stmts, _ := gen.Stmts(t, gcfg)
					late := []string{"la, lb := 1, 2\nla, lb = lb, la\nprint(\"x\" < \"y\")\n", "lq := 1\nswitch lq {\ncase 1:\n\tbreak\n}\n", "ls := []int{1}\nlt := []int{2}\nprint(ls == lt)\n"}[gen.Uniform(0, 2).Draw(t, "late-kind")]
					c.Progs = append(c.Progs, c14Prog{Files: map[string]string{"main.tsh": ts.StmtsString(stmts) + late}, Main: "main.tsh", Kind: "rejected"})
					hasBad = true
					continue
				}
				bad := []string{"x := 1 +\n", "print(undefined)\n", "func f() int {\n}\n", "if 1 {\n}\n", "x := \"abc\n", "import q \"missing.tsh\"\n"}[gen.Uniform(0, 5).Draw(t, "bad")]
				c.Progs = append(c.Progs, c14Prog{Files: map[string]string{"main.tsh": bad}, Main: "main.tsh", Kind: "rejected"})
				hasBad = true
			default:
				c.Progs = append(c.Progs, c14Prog{Kind: "all-helpers", Main: "main.tsh", Files: map[string]string{"main.tsh": "s := []int{1, 2}\ns[3] = 4\nvar d []int\nn := copy(d, s)\nt := \"hello\"\nprint(n, len(s), len(t), t[1:3], t[0])\nwrite(\"f.txt\", t)\nif exists(\"f.txt\") {\n\tprint(read(\"f.txt\"))\n}\nfor i, v := range s {\n\tprint(i, v)\n}\no, er, code := @echo(\"x\")\nprint(o, er, code)\n"}})
			}
		}
		ns := gen.Uniform(6, 30).Draw(t, "nsteps")
		for i := 0; i < ns; i++ {
			st := c14Step{Prog: gen.Uniform(0, np-1).Draw(t, "step-prog"), Target: []string{"bash", "batch"}[gen.Uniform(0, 1).Draw(t, "step-target")]}
			if len(c.Progs[st.Prog].Alt) > 0 {
				st.Version = gen.Uniform(0, 1).Draw(t, "step-version")
				if st.Version == 1 {
					r.Class("history:imported-file-edited-in-place")
				}
			}
			c.Steps = append(c.Steps, st)
		}
		// non-triviality of the history
		nontrivial := false
		first := map[string]int{}
		for n, st := range c.Steps {
			key := fmt.Sprintf("%d/%s", st.Prog, st.Target)
			if f, ok := first[key]; ok {
				otherTarget, failing := false, false
				for _, mid := range c.Steps[f+1 : n] {
					if mid.Target != st.Target {
						otherTarget = true
					}
					if c.Progs[mid.Prog].Kind == "rejected" {
						failing = true
					}
				}
				if n-f > 2 && otherTarget && (failing || !hasBad) {
					nontrivial = true
				}
			} else {
				first[key] = n
			}
		}
		r.Eval()
		for _, p := range c.Progs {
			r.Class("prog:" + p.Kind)
		}
		key, _ := json.Marshal(c)
		if nontrivial {
			kinds := []string{}
			for _, p := range c.Progs {
				kinds = append(kinds, p.Kind)
			}
			r.NonTrivial(string(key), map[string]any{"programs": kinds, "steps": c.Steps, "first_program": c.Progs[0].Files})
			r.Class("history:nontrivial")
		}
		// self-check of the harness: every program that is not meant to be rejected is accepted (a pool of rejected programs would
		// compare error texts only)
		for i, p := range c.Progs {
			if p.Kind == "rejected" || p.Kind == "generated" {
				continue
			}
			if tr := run.TranspileSrc(p.Files, p.Main, run.Bash); !tr.Accepted() {
				r.HarnessError("C14 pool program %d (%s) is not accepted: %s", i, p.Kind, tr.ErrText())
				t.Skip("harness")
			}
		}
		kind, msg := checkPurity(c)
		if kind == "harness" {
			r.HarnessError("%s", msg)
			t.Skip("harness")
		}
		if kind != "" {
			r.FailCase(t, rep.Sig{"relation": kind}, msg, c)
		}
	})
}
