package checks

import (
	"fmt"

	"verif/harness/rep"
	"verif/harness/ts"
)

// Deterministic sweeps shared by C01 (operator precedence / associativity) and C03 (substring bounds).

// labels are spelled with letters only: they travel through the program under test (also through Batch, where % is special)
var opName = map[string]string{"+": "add", "-": "sub", "*": "mul", "/": "div", "%": "mod", "==": "eq", "!=": "ne", "<": "lt", "<=": "le", ">": "gt", ">=": "ge", "&&": "and", "||": "or"}

func vr(n string, t ts.Type) ts.Expr { return ts.VarRef{Name: n, Ty: t} }

// c01Sweep: every pair of binary operators over three operands, in the three groupings
// a op1 b op2 c / (a op1 b) op2 c / a op1 (b op2 c), for int arithmetic, mixed logical operators,
// comparison chains and arithmetic under comparisons. One program per operand set.
func c01SweepPrograms() []*ts.Program {
	progs := []*ts.Program{}
	for _, vals := range [][3]int64{{7, -3, 2}, {-8, 5, 3}, {12, 10, -7}, {1, 100, 9}} {
		stmts := []ts.Stmt{short("a", ts.TInt, il(vals[0])), short("b", ts.TInt, il(vals[1])), short("c", ts.TInt, il(vals[2]))}
		a, b, c := vr("a", ts.TInt), vr("b", ts.TInt), vr("c", ts.TInt)
		ops := []string{"+", "-", "*", "/", "%"}
		for _, o1 := range ops {
			for _, o2 := range ops {
				flat := ts.Bin{Op: o2, Ty: ts.TInt, L: ts.Bin{Op: o1, Ty: ts.TInt, L: a, R: b}, R: c} // printed without parentheses iff precedence allows
				right := ts.Bin{Op: o1, Ty: ts.TInt, L: a, R: ts.Bin{Op: o2, Ty: ts.TInt, L: b, R: c}}
				leftG := ts.Bin{Op: o2, Ty: ts.TInt, L: ts.Group{E: ts.Bin{Op: o1, Ty: ts.TInt, L: a, R: b}}, R: c}
				rightG := ts.Bin{Op: o1, Ty: ts.TInt, L: a, R: ts.Group{E: ts.Bin{Op: o2, Ty: ts.TInt, L: b, R: c}}}
				stmts = append(stmts, pr(sl(opName[o1]+"."+opName[o2]), flat, right, leftG, rightG))
			}
		}
		cmps := []string{"==", "!=", "<", "<=", ">", ">="}
		for _, o1 := range cmps {
			for _, o2 := range []string{"+", "-", "*"} {
				stmts = append(stmts, pr(sl(opName[o1]+"."+opName[o2]), ts.Cmp{Op: o1, L: ts.Bin{Op: o2, Ty: ts.TInt, L: a, R: b}, R: c}, ts.Cmp{Op: o1, L: a, R: ts.Bin{Op: o2, Ty: ts.TInt, L: b, R: c}}))
			}
			for _, o2 := range []string{"==", "!="} {
				// a o1 b o2 true  parses as (a o1 b) o2 true
				stmts = append(stmts, pr(sl(opName[o1]+"."+opName[o2]), ts.Cmp{Op: o2, L: ts.Cmp{Op: o1, L: a, R: b}, R: bl(true)}, ts.Cmp{Op: o2, L: bl(false), R: ts.Group{E: ts.Cmp{Op: o1, L: b, R: c}}}))
			}
		}
		progs = append(progs, ts.Single(stmts))
	}
	// logical operators over all truth assignments
	for mask := 0; mask < 8; mask++ {
		p, q, rr := mask&1 == 1, mask&2 == 2, mask&4 == 4
		stmts := []ts.Stmt{short("p", ts.TBool, bl(p)), short("q", ts.TBool, bl(q)), short("r", ts.TBool, bl(rr))}
		P, Q, R := vr("p", ts.TBool), vr("q", ts.TBool), vr("r", ts.TBool)
		for _, o1 := range []string{"&&", "||"} {
			for _, o2 := range []string{"&&", "||"} {
				stmts = append(stmts, pr(sl(opName[o1]+"."+opName[o2]),
					ts.Logic{Op: o2, L: ts.Logic{Op: o1, L: P, R: Q}, R: R},
					ts.Logic{Op: o1, L: P, R: ts.Logic{Op: o2, L: Q, R: R}},
					ts.Logic{Op: o2, L: ts.Group{E: ts.Logic{Op: o1, L: P, R: Q}}, R: R},
					ts.Logic{Op: o1, L: P, R: ts.Group{E: ts.Logic{Op: o2, L: Q, R: R}}},
					ts.Logic{Op: o1, L: ts.Not{E: P}, R: ts.Logic{Op: o2, L: ts.Not{E: Q}, R: R}},
					ts.Logic{Op: o1, L: ts.Cmp{Op: "==", L: P, R: Q}, R: ts.Cmp{Op: "!=", L: Q, R: R}},
					ts.Cmp{Op: "==", L: ts.Not{E: P}, R: Q}))
			}
		}
		// conditions used in control flow, not only printed
		stmts = append(stmts, ts.If{Cond: ts.Logic{Op: "||", L: P, R: ts.Logic{Op: "&&", L: Q, R: R}}, Then: []ts.Stmt{pr(sl("if-or-and"))}, Elifs: []ts.ElseIf{{Cond: ts.Logic{Op: "&&", L: ts.Logic{Op: "||", L: P, R: Q}, R: R}, Body: []ts.Stmt{pr(sl("elif-grouped"))}}}, Else: []ts.Stmt{pr(sl("else"))}, HasElse: true})
		progs = append(progs, ts.Single(stmts))
	}
	return progs
}

// c03SweepPrograms: all (a, b) substring bounds and single indices for strings of length 0..maxLen,
// with literal bounds, variable bounds and bounds computed from len().
func c03SweepPrograms(maxLen int) []*ts.Program {
	progs := []*ts.Program{}
	alphabet := "abcdefghijklmnopqrstuvwxyz"
	for L := 0; L <= maxLen; L++ {
		w := vr("w", ts.TString)
		stmts := []ts.Stmt{short("w", ts.TString, sl(alphabet[:L])), short("x", ts.TInt, il(0)), short("y", ts.TInt, il(0))}
		mark := func(e ts.Expr) ts.Expr {
			return ts.Bin{Op: "+", Ty: ts.TString, L: ts.Bin{Op: "+", Ty: ts.TString, L: sl("<"), R: e}, R: sl(">")}
		}
		for a := 0; a <= L; a++ {
			for b := a; b <= L; b++ {
				stmts = append(stmts,
					ts.Assign{Names: []string{"x", "y"}, Vals: []ts.Expr{il(int64(a)), il(int64(b))}},
					pr(sl(fmt.Sprintf("%d:%d", a, b)), mark(ts.Substr{X: w, Lo: il(int64(a)), Hi: il(int64(b))}), mark(ts.Substr{X: w, Lo: vr("x", ts.TInt), Hi: vr("y", ts.TInt)}),
						mark(ts.Substr{X: w, Lo: ts.Bin{Op: "-", Ty: ts.TInt, L: ts.Len{X: w}, R: il(int64(L - a))}, Hi: ts.Bin{Op: "-", Ty: ts.TInt, L: ts.Len{X: w}, R: il(int64(L - b))}}),
						ts.Len{X: ts.Substr{X: w, Lo: vr("x", ts.TInt), Hi: vr("y", ts.TInt)}}))
			}
			stmts = append(stmts, pr(sl(fmt.Sprintf("%d:", a)), mark(ts.Substr{X: w, Lo: il(int64(a))}), mark(ts.Substr{X: w, Hi: il(int64(a))}), mark(ts.Substr{X: w, Lo: vr("x", ts.TInt)}), mark(ts.Substr{X: w, Hi: vr("x", ts.TInt)})))
			if a < L {
				stmts = append(stmts, pr(sl(fmt.Sprintf("[%d]", a)), mark(ts.Index{X: w, I: il(int64(a)), Ty: ts.TString}), mark(ts.Index{X: w, I: vr("x", ts.TInt), Ty: ts.TString}),
					ts.Cmp{Op: "==", L: ts.Index{X: w, I: vr("x", ts.TInt), Ty: ts.TString}, R: sl(alphabet[a : a+1])}))
			}
		}
		stmts = append(stmts, pr(sl("all"), mark(ts.Substr{X: w}), ts.Len{X: w}, ts.Cmp{Op: "==", L: ts.Substr{X: w}, R: w}))
		stmts = append(stmts, ts.Range{I: "i", V: "ch", X: w, Body: []ts.Stmt{pr(vr("i", ts.TInt), mark(vr("ch", ts.TString)))}})
		progs = append(progs, ts.Single(stmts))
	}
	// slices: every index of slices of length 0..maxLen+1 (crossing 9 -> 10), growth by 0, 1, >= 2
	lens := []int{0, 1, 2, 9, 10, 11, maxLen + 3, 20, 40} // the property names lengths 0..40
	if maxLen > 6 {
		lens = append(lens, 19, 21, 30, 39)
	}
	for _, L := range lens {
		s := vr("s", ts.TIntS)
		lit := ts.SliceLit{Elem: ts.TInt}
		for i := 0; i < L; i++ {
			lit.Elems = append(lit.Elems, il(int64(100+i)))
		}
		stmts := []ts.Stmt{short("s", ts.TIntS, lit), short("t", ts.TIntS, s), pr(sl("len"), ts.Len{X: s})}
		dump := func(tag string) {
			stmts = append(stmts, pr(sl(tag), ts.Len{X: s}, ts.Len{X: vr("t", ts.TIntS)}),
				ts.Range{I: "i" + tag, V: "v" + tag, X: vr("t", ts.TIntS), Body: []ts.Stmt{pr(vr("i"+tag, ts.TInt), vr("v"+tag, ts.TInt))}})
		}
		dump("a")
		stmts = append(stmts, ts.SetIndex{Name: "s", Elem: ts.TInt, I: ts.Len{X: s}, Val: il(-1)})
		dump("b")
		stmts = append(stmts, ts.SetIndex{Name: "t", Elem: ts.TInt, I: ts.Bin{Op: "+", Ty: ts.TInt, L: ts.Len{X: s}, R: il(2)}, Val: il(-2)})
		dump("c")
		if L > 0 {
			stmts = append(stmts, ts.SetIndex{Name: "s", Elem: ts.TInt, I: il(0), Val: il(-3)}, ts.SetIndex{Name: "t", Elem: ts.TInt, I: il(int64(L - 1)), Val: il(-4)})
			dump("d")
		}
		stmts = append(stmts, ts.VarDecl{Names: []string{"d"}, Ty: ts.TIntS, Tys: []ts.Type{ts.TIntS}, Form: ts.DeclVarType}, pr(sl("copied"), ts.Copy{Dst: ts.VarRef{Name: "d", Ty: ts.TIntS}, Src: s}),
			ts.Range{I: "ie", V: "ve", X: vr("d", ts.TIntS), Body: []ts.Stmt{pr(vr("ie", ts.TInt), vr("ve", ts.TInt))}})
		progs = append(progs, ts.Single(stmts))
	}
	return progs
}

func runSweep(r *rep.R, e rep.Env, property string, progs []*ts.Program, label string) {
	for i, p := range progs {
		if !e.Mine(i) {
			continue
		}
		name := fmt.Sprintf("%s-%d", label, i)
		r.Class("sweep:" + label)
		diffProgram(tableSkipper{r, name}, r, p, diffOpts{Property: property, MaxSteps: 400000, Tags: map[string]int{"sweep": 1}, Enumerated: true,
			NonTrivial: func(map[string]int, map[string]int) bool { return true },
			SigExtra:   func(o execOutcome, _ map[string]int) rep.Sig { return rep.Sig{"sweep": name} }})
	}
	r.AddExtra("n_sweep_programs", len(progs))
}
