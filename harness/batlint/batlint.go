// Package batlint reads emitted Batch text structurally (by shape, not by the naming scheme of
// labels or helpers) and checks the well-formedness clauses of property C16.
package batlint

import (
	"fmt"
	"regexp"
	"strings"
)

type Issue struct {
	Rule string // parens | undefined-label | duplicate-label | helper-missing | helper-unused | jump-outside-construct | jump-not-innermost
	Msg  string
}

type routine struct {
	entry      string
	start, end int // line indices of the leading goto and the closing label
}

type region struct {
	kind       string // loop | if | routine
	head, tail string // labels (loop: head/end; if: end label; routine: entry / return label)
	start, end int
}

var (
	reLabel    = regexp.MustCompile(`^:([A-Za-z0-9_]+)\s*$`)
	reGoto     = regexp.MustCompile(`(?i)\bgoto\s+:?([A-Za-z0-9_]+)`)
	reCall     = regexp.MustCompile(`(?i)\bcall\s+:([A-Za-z0-9_]+)`)
	reQuoted   = regexp.MustCompile(`"[^"]*"`)
	reGotoLine = regexp.MustCompile(`(?i)^goto\s+:([A-Za-z0-9_]+)$`)
)

// parenDelta counts block parentheses of a line outside double quotes (^( and ^) are escaped).
func parenDelta(line string) (minDepth int, delta int) {
	inQ := false
	d := 0
	for i := 0; i < len(line); i++ {
		c := line[i]
		switch {
		case c == '(' && i >= 4 && strings.EqualFold(line[i-4:i], "echo"):
			// "echo(" is the robust spelling of echo, not a block
		case c == '^' && i+1 < len(line):
			i++
		case c == '"':
			inQ = !inQ
		case inQ:
		case c == '(':
			d++
		case c == ')':
			d--
			if d < minDepth {
				minDepth = d
			}
		}
	}
	return minDepth, d
}

// Lint checks script. userFuncs are the (prefixed) names of the program's own functions.
func Lint(script string, userFuncs map[string]bool) []Issue {
	issues := []Issue{}
	add := func(rule, f string, a ...any) { issues = append(issues, Issue{rule, fmt.Sprintf(f, a...)}) }
	lines := strings.Split(strings.ReplaceAll(script, "\r\n", "\n"), "\n")

	// (i) parentheses
	depth := 0
	openers := []int{} // line index of the block opener for each open depth level
	blockStart := map[int]int{}
	for i, l := range lines {
		t := strings.TrimSpace(l)
		if strings.HasPrefix(t, "::") || strings.HasPrefix(strings.ToLower(t), "rem") {
			continue
		}
		mn, d := parenDelta(t)
		if depth+mn < 0 {
			add("parens", "line %d closes a block that was never opened: %q", i+1, t)
			depth = 0
			continue
		}
		// track chain starts: a line beginning with ")" continues/ends the chain opened earlier
		if strings.HasPrefix(t, ")") && len(openers) > 0 {
			start := openers[len(openers)-1]
			openers = openers[:len(openers)-1]
			blockStart[i] = start
			if strings.HasSuffix(t, "(") {
				openers = append(openers, start)
			}
		} else if d > 0 {
			for k := 0; k < d; k++ {
				openers = append(openers, i)
			}
		}
		depth += d
	}
	if depth != 0 {
		add("parens", "parentheses do not balance (depth %d at end of file)", depth)
	}

	// labels
	labelAt := map[string]int{}
	for i, l := range lines {
		if m := reLabel.FindStringSubmatch(strings.TrimSpace(l)); m != nil {
			k := strings.ToLower(m[1])
			if prev, dup := labelAt[k]; dup {
				add("duplicate-label", "label :%s defined at line %d and again at line %d", m[1], prev+1, i+1)
				continue
			}
			labelAt[k] = i
		}
	}
	type jump struct {
		line   int
		target string
		call   bool
	}
	jumps := []jump{}
	for i, l := range lines {
		t := strings.TrimSpace(l)
		if strings.HasPrefix(t, "::") || reLabel.MatchString(t) {
			continue
		}
		t = reQuoted.ReplaceAllString(t, `""`) // data inside quotes is not code
		for _, m := range reGoto.FindAllStringSubmatch(t, -1) {
			jumps = append(jumps, jump{i, strings.ToLower(m[1]), false})
		}
		for _, m := range reCall.FindAllStringSubmatch(t, -1) {
			jumps = append(jumps, jump{i, strings.ToLower(m[1]), true})
		}
	}
	// (ii)/(iv) targets exist
	for _, j := range jumps {
		if j.target == "eof" {
			continue
		}
		if _, ok := labelAt[j.target]; !ok {
			what := "goto"
			if j.call {
				what = "call"
			}
			add("undefined-label", "line %d: %s :%s has no label to go to", j.line+1, what, j.target)
		}
	}

	// routines by shape: "goto :M" immediately followed by label ":L", up to label ":M"
	routines := []routine{}
	for i := 0; i+1 < len(lines); i++ {
		t := strings.TrimSpace(lines[i])
		m := reGotoLine.FindStringSubmatch(t)
		if m == nil {
			continue
		}
		l2 := reLabel.FindStringSubmatch(strings.TrimSpace(lines[i+1]))
		if l2 == nil {
			continue
		}
		endIdx, ok := labelAt[strings.ToLower(m[1])]
		if !ok || endIdx <= i+1 {
			continue
		}
		// the if-end shape "goto :X / ) / :X" is not a routine; a routine's closing label differs from its entry
		if strings.EqualFold(m[1], l2[1]) {
			continue
		}
		// a routine returns with "exit /B" right before its closing label (a "goto :end" followed by a label is no routine)
		if !strings.HasPrefix(strings.ToLower(strings.TrimSpace(lines[endIdx-1])), "exit /b") {
			continue
		}
		routines = append(routines, routine{entry: strings.ToLower(l2[1]), start: i, end: endIdx})
	}
	inRoutine := func(line int) *routine {
		for k := range routines {
			if line >= routines[k].start && line <= routines[k].end {
				return &routines[k]
			}
		}
		return nil
	}
	// (v) helpers present exactly when used
	helpers := map[string]*routine{}
	for k := range routines {
		if !userFuncs[routines[k].entry] && !userFuncsFold(userFuncs, routines[k].entry) {
			helpers[routines[k].entry] = &routines[k]
		}
	}
	calledFromOutside := map[string]bool{}
	for _, j := range jumps {
		if !j.call {
			continue
		}
		r := inRoutine(j.line)
		if r != nil && r.entry == j.target {
			continue // a routine calling itself does not make it used
		}
		calledFromOutside[j.target] = true
	}
	for name := range helpers {
		if !calledFromOutside[name] {
			add("helper-unused", "helper routine :%s is emitted but nothing calls it", name)
		}
	}

	// (vi) containment: loop regions "head label ... goto head / ) / end label"; if regions "goto X / ) / X"
	regions := []region{}
	for i := 0; i+2 < len(lines); i++ {
		g := reGotoLine.FindStringSubmatch(strings.TrimSpace(lines[i]))
		if g == nil || strings.TrimSpace(lines[i+1]) != ")" {
			continue
		}
		lab := reLabel.FindStringSubmatch(strings.TrimSpace(lines[i+2]))
		if lab == nil {
			continue
		}
		target, after := strings.ToLower(g[1]), strings.ToLower(lab[1])
		if target == after {
			start, ok := blockStart[i+1]
			if !ok {
				start = i
			}
			regions = append(regions, region{kind: "if", tail: after, start: start, end: i + 2})
		} else if hi, ok := labelAt[target]; ok && hi < i {
			regions = append(regions, region{kind: "loop", head: target, tail: after, start: hi, end: i + 2})
		}
	}
	for _, j := range jumps {
		if j.call {
			continue
		}
		// which construct does this label belong to?
		var owners []region
		for _, rg := range regions {
			if rg.head == j.target || rg.tail == j.target {
				owners = append(owners, rg)
			}
		}
		if len(owners) == 0 {
			continue
		}
		inside := false
		for _, rg := range owners {
			if j.line >= rg.start && j.line <= rg.end {
				inside = true
			}
		}
		if !inside {
			add("jump-outside-construct", "line %d: goto :%s leaves the %s it belongs to (lines %d-%d)", j.line+1, j.target, owners[0].kind, owners[0].start+1, owners[0].end+1)
			continue
		}
		// innermost rule for loops: among loop regions containing the jump, the target must belong to the innermost
		var inner *region
		for k := range regions {
			rg := &regions[k]
			if rg.kind != owners[0].kind || j.line < rg.start || j.line > rg.end {
				continue
			}
			if inner == nil || rg.start > inner.start {
				inner = rg
			}
		}
		if inner != nil && inner.head != j.target && inner.tail != j.target {
			add("jump-not-innermost", "line %d: goto :%s does not target the innermost enclosing %s (:%s/:%s)", j.line+1, j.target, inner.kind, inner.head, inner.tail)
		}
	}
	return issues
}

func userFuncsFold(m map[string]bool, name string) bool {
	for k := range m {
		if strings.EqualFold(k, name) {
			return true
		}
	}
	return false
}
