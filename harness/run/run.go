// Package run transpiles TypeShell sources with the code under test and executes emitted Bash.
package run

import (
	"bytes"
	"context"
	"errors"
	"fmt"
	"os"
	"os/exec"
	"path/filepath"
	"sort"
	"strings"
	"syscall"
	"time"

	"github.com/monstermichl/typeshell/converters/bash"
	"github.com/monstermichl/typeshell/converters/batch"
	"github.com/monstermichl/typeshell/transpiler"
)

type Target string

const (
	Bash  Target = "bash"
	Batch Target = "batch"
)

func NewConverter(t Target) transpiler.Converter {
	if t == Batch {
		return batch.New()
	}
	return bash.New()
}

// TResult is the outcome of one transpilation.
type TResult struct {
	Script   string
	Err      error
	Panic    string // non-empty if Transpile panicked
	TimedOut bool
}

func (r TResult) Accepted() bool { return r.Err == nil && r.Panic == "" && !r.TimedOut }

func (r TResult) Verdict() string {
	switch {
	case r.TimedOut:
		return "timeout"
	case r.Panic != "":
		return "panic"
	case r.Err != nil:
		return "reject"
	}
	return "accept"
}

func (r TResult) ErrText() string {
	if r.Panic != "" {
		return "PANIC: " + r.Panic
	}
	if r.TimedOut {
		return "TIMEOUT"
	}
	if r.Err != nil {
		return r.Err.Error()
	}
	return ""
}

// TranspilePath transpiles the file at path in process (recover + watchdog).
// A timed-out goroutine cannot be killed; callers that expect hangs use child processes.
func TranspilePath(path string, target Target, timeout time.Duration) TResult {
	ch := make(chan TResult, 1)
	go func() {
		var res TResult
		defer func() {
			if p := recover(); p != nil {
				res = TResult{Panic: fmt.Sprint(p)}
			}
			ch <- res
		}()
		t := transpiler.New()
		s, err := t.Transpile(path, NewConverter(target))
		res = TResult{Script: s, Err: err}
	}()
	if timeout <= 0 {
		return <-ch
	}
	select {
	case r := <-ch:
		return r
	case <-time.After(timeout):
		return TResult{TimedOut: true}
	}
}

// Scratch returns a fresh directory outside /repo and /verif.
func Scratch(prefix string) string {
	base := os.Getenv("VERIF_TMP")
	if base == "" {
		base = os.TempDir()
	}
	d, err := os.MkdirTemp(base, "vf-"+prefix+"-")
	if err != nil {
		panic(err)
	}
	return d
}

// WriteFiles writes files (relative name -> content) below dir.
func WriteFiles(dir string, files map[string]string) {
	for name, content := range files {
		p := filepath.Join(dir, name)
		os.MkdirAll(filepath.Dir(p), 0o755)
		if err := os.WriteFile(p, []byte(content), 0o644); err != nil {
			panic(err)
		}
	}
}

// TranspileSrc writes the files into a scratch directory and transpiles main.
func TranspileSrc(files map[string]string, main string, target Target) TResult {
	dir := Scratch("src")
	defer os.RemoveAll(dir)
	WriteFiles(dir, files)
	res := TranspilePath(filepath.Join(dir, main), target, 20*time.Second)
	if res.TimedOut {
		// a time-out only counts when the machine is not stalled: wait until it is responsive, then decide with a longer limit
		WaitResponsive()
		res = TranspilePath(filepath.Join(dir, main), target, 60*time.Second)
	}
	return res
}

// TranspileSecond writes the files into a scratch directory and transpiles main for target AFTER the same transpiler object
// has translated it for the other target - what the tsh command does for "-t batch -t bash". The first result is dropped.
func TranspileSecond(files map[string]string, main string, target Target) (res TResult) {
	dir := Scratch("src2")
	defer os.RemoveAll(dir)
	WriteFiles(dir, files)
	path := filepath.Join(dir, main)
	defer func() {
		if p := recover(); p != nil {
			res = TResult{Panic: fmt.Sprint(p)}
		}
	}()
	other := Batch
	if target == Batch {
		other = Bash
	}
	t := transpiler.New()
	t.Transpile(path, NewConverter(other))
	s, err := t.Transpile(path, NewConverter(target))
	return TResult{Script: s, Err: err}
}

// WaitResponsive blocks until the machine runs a trivial shell script promptly (at most about two minutes). A time-out is only
// evidence of non-termination if the machine was not stalled at that moment (other jobs, I/O): checks call this before the
// confirming re-run of a case that hit its watchdog.
func WaitResponsive() {
	for i := 0; i < 25; i++ {
		t0 := time.Now()
		r := RunBash("x=$(echo ok)\necho $x\n", ExecOpts{Timeout: 10 * time.Second})
		if !r.TimedOut && time.Since(t0) < 1500*time.Millisecond {
			return
		}
		time.Sleep(4 * time.Second)
	}
}

// TranspileOne transpiles a single-file program.
func TranspileOne(src string, target Target) TResult {
	return TranspileSrc(map[string]string{"main.tsh": src}, "main.tsh", target)
}

// ExecResult is what running a script produced.
type ExecResult struct {
	Stdout   string
	Stderr   string
	Status   int
	TimedOut bool
	Files    map[string]string // sandbox content after the run (relative path -> content), script excluded
}

type ExecOpts struct {
	Stdin    string
	Pre      map[string]string // files placed in the sandbox before the run
	PreDirs  []string
	Exec     map[string]string // executable files placed in the sandbox
	Env      []string          // extra environment (default: empty environment)
	Timeout  time.Duration
	KeepFS   bool // collect sandbox files afterwards
	MaxOut   int
	ScriptAt string // relative name of the script inside the sandbox (default "_script.sh" in a sibling dir)
}

// RunBash executes script under /bin/bash with an empty environment in a fresh sandbox directory.
// The script itself lives outside the sandbox cwd so directory listings stay clean.
func RunBash(script string, o ExecOpts) ExecResult {
	root := Scratch("sb")
	defer os.RemoveAll(root)
	box := filepath.Join(root, "box")
	os.MkdirAll(box, 0o755)
	for _, d := range o.PreDirs {
		os.MkdirAll(filepath.Join(box, d), 0o755)
	}
	WriteFiles(box, o.Pre)
	for name, content := range o.Exec {
		p := filepath.Join(box, name)
		os.MkdirAll(filepath.Dir(p), 0o755)
		os.WriteFile(p, []byte(content), 0o755)
	}
	sp := filepath.Join(root, "script.sh")
	os.WriteFile(sp, []byte(script), 0o755)
	if o.Timeout == 0 {
		o.Timeout = 10 * time.Second
	}
	if o.MaxOut == 0 {
		o.MaxOut = 1 << 20
	}
	ctx, cancel := context.WithTimeout(context.Background(), o.Timeout)
	defer cancel()
	cmd := exec.CommandContext(ctx, "/bin/bash", sp)
	cmd.Dir = box
	cmd.Env = append([]string{}, o.Env...)
	for i, e := range cmd.Env {
		cmd.Env[i] = strings.ReplaceAll(e, "{BOX}", box)
	}
	cmd.Stdin = strings.NewReader(o.Stdin)
	var so, se limitedBuf
	so.max, se.max = o.MaxOut, o.MaxOut
	cmd.Stdout, cmd.Stderr = &so, &se
	cmd.SysProcAttr = &syscall.SysProcAttr{Setpgid: true}
	cmd.Cancel = func() error {
		return syscall.Kill(-cmd.Process.Pid, syscall.SIGKILL)
	}
	cmd.WaitDelay = 2 * time.Second
	err := cmd.Run()
	res := ExecResult{Stdout: so.String(), Stderr: se.String()}
	if ctx.Err() != nil {
		res.TimedOut = true
		res.Status = -1
	} else if err != nil {
		var ee *exec.ExitError
		if errors.As(err, &ee) {
			res.Status = ee.ExitCode()
		} else {
			res.Status = -2
			res.Stderr += "\n[harness] " + err.Error()
		}
	}
	if o.KeepFS {
		res.Files = map[string]string{}
		filepath.Walk(box, func(p string, info os.FileInfo, err error) error {
			if err != nil || info.IsDir() {
				return nil
			}
			rel, _ := filepath.Rel(box, p)
			if _, isExec := o.Exec[rel]; isExec {
				return nil
			}
			b, _ := os.ReadFile(p)
			res.Files[rel] = string(b)
			return nil
		})
	}
	// bash prefixes its own diagnostics with the script path; make them location independent.
	res.Stderr = strings.ReplaceAll(res.Stderr, sp, "script.sh")
	res.Stderr = strings.ReplaceAll(res.Stderr, box, "{BOX}")
	return res
}

type limitedBuf struct {
	bytes.Buffer
	max int
}

func (b *limitedBuf) Write(p []byte) (int, error) {
	if b.Len() < b.max {
		room := b.max - b.Len()
		if len(p) > room {
			b.Buffer.Write(p[:room])
		} else {
			b.Buffer.Write(p)
		}
	}
	return len(p), nil
}

// BashSyntaxOK runs bash -n on the script.
func BashSyntaxOK(script string) (bool, string) {
	root := Scratch("bn")
	defer os.RemoveAll(root)
	sp := filepath.Join(root, "script.sh")
	os.WriteFile(sp, []byte(script), 0o644)
	cmd := exec.Command("/bin/bash", "-n", sp)
	cmd.Env = []string{}
	out, err := cmd.CombinedOutput()
	msg := strings.ReplaceAll(string(out), sp, "script.sh")
	return err == nil && len(out) == 0, msg
}

// SortedKeys returns the keys of m in order.
func SortedKeys[V any](m map[string]V) []string {
	ks := make([]string, 0, len(m))
	for k := range m {
		ks = append(ks, k)
	}
	sort.Strings(ks)
	return ks
}
