package run

import (
	"bufio"
	"crypto/sha256"
	"encoding/hex"
	"encoding/json"
	"fmt"
	"io"
	"os"
	"os/exec"
	"path/filepath"
	"runtime/debug"
	"strings"
	"syscall"
	"time"
)

// Child-process workers: a crash (stack overflow is fatal in Go) or a hang of the code under
// test kills only the worker. The worker is the test binary itself, re-executed with
// VERIF_WORKER=1 (-test.run ^TestWorker$).

type WReq struct {
	Path       string   `json:"path"` // file to transpile (already on disk)
	Targets    []string `json:"targets"`
	WantScript bool     `json:"want_script,omitempty"`
	Chdir      string   `json:"chdir,omitempty"`
}

type WRes struct {
	Target  string `json:"target"`
	Verdict string `json:"verdict"` // accept | reject | panic
	Err     string `json:"err,omitempty"`
	Script  string `json:"script,omitempty"`
	SHA     string `json:"sha,omitempty"`
	Len     int    `json:"len"`
	// contract violations detected inside the worker
	ScriptAndError bool `json:"script_and_error,omitempty"`
	EmptyError     bool `json:"empty_error,omitempty"`
	Micros         int64 `json:"micros"`
}

type WResp struct {
	Results []WRes `json:"results"`
}

const respPrefix = "\x01RESP "

// ServeWorker is the worker loop (called from TestWorker).
func ServeWorker() {
	debug.SetMaxStack(96 << 20)
	in := bufio.NewReaderSize(os.Stdin, 1<<20)
	out := bufio.NewWriter(os.Stdout)
	for {
		line, err := in.ReadString('\n')
		if err != nil {
			return
		}
		var req WReq
		if json.Unmarshal([]byte(line), &req) != nil {
			continue
		}
		if req.Chdir != "" {
			os.Chdir(req.Chdir)
		}
		resp := WResp{}
		for _, tg := range req.Targets {
			t0 := time.Now()
			tr := TranspilePath(req.Path, Target(tg), 0)
			r := WRes{Target: tg, Verdict: tr.Verdict(), Err: tr.ErrText(), Len: len(tr.Script), Micros: time.Since(t0).Microseconds()}
			h := sha256.Sum256([]byte(tr.Script))
			r.SHA = hex.EncodeToString(h[:8])
			if tr.Err != nil && tr.Script != "" {
				r.ScriptAndError = true
			}
			if tr.Err != nil && tr.Err.Error() == "" {
				r.EmptyError = true
			}
			if req.WantScript {
				r.Script = tr.Script
			}
			resp.Results = append(resp.Results, r)
		}
		b, _ := json.Marshal(resp)
		out.WriteString(respPrefix)
		out.Write(b)
		out.WriteByte('\n')
		out.Flush()
	}
}

type Worker struct {
	cmd   *exec.Cmd
	stdin io.WriteCloser
	lines chan string
	dead  chan struct{}
}

// StartWorker launches a worker process from the running test binary.
func StartWorker() (*Worker, error) {
	bin := os.Getenv("VERIF_BIN")
	if bin == "" {
		var err error
		bin, err = os.Executable()
		if err != nil {
			return nil, err
		}
	}
	cmd := exec.Command(bin, "-test.run", "^TestWorker$", "-test.timeout", "0")
	cmd.Dir = filepath.Dir(bin)
	cmd.Env = append(os.Environ(), "VERIF_WORKER=1")
	cmd.SysProcAttr = &syscall.SysProcAttr{Setpgid: true}
	stdin, err := cmd.StdinPipe()
	if err != nil {
		return nil, err
	}
	stdout, err := cmd.StdoutPipe()
	if err != nil {
		return nil, err
	}
	cmd.Stderr = io.Discard
	if err := cmd.Start(); err != nil {
		return nil, err
	}
	w := &Worker{cmd: cmd, stdin: stdin, lines: make(chan string, 4), dead: make(chan struct{})}
	go func() {
		rd := bufio.NewReaderSize(stdout, 1<<20)
		for {
			l, err := rd.ReadString('\n')
			if strings.HasPrefix(l, respPrefix) {
				w.lines <- strings.TrimPrefix(l, respPrefix)
			}
			if err != nil {
				close(w.dead)
				return
			}
		}
	}()
	return w, nil
}

func (w *Worker) Kill() {
	if w.cmd != nil && w.cmd.Process != nil {
		syscall.Kill(-w.cmd.Process.Pid, syscall.SIGKILL)
		w.cmd.Wait()
	}
}

// Do sends one request. outcome: "ok", "timeout", "died".
func (w *Worker) Do(req WReq, timeout time.Duration) (WResp, string) {
	b, _ := json.Marshal(req)
	if _, err := w.stdin.Write(append(b, '\n')); err != nil {
		return WResp{}, "died"
	}
	select {
	case l := <-w.lines:
		var resp WResp
		if err := json.Unmarshal([]byte(l), &resp); err != nil {
			return WResp{}, "died"
		}
		return resp, "ok"
	case <-w.dead:
		// drain a response that may have arrived just before death
		select {
		case l := <-w.lines:
			var resp WResp
			if json.Unmarshal([]byte(l), &resp) == nil {
				return resp, "ok"
			}
		default:
		}
		return WResp{}, "died"
	case <-time.After(timeout):
		return WResp{}, "timeout"
	}
}

// Pool keeps one live worker and replaces it when it dies or hangs.
type Pool struct {
	w *Worker
}

func (p *Pool) Close() {
	if p.w != nil {
		p.w.Kill()
		p.w = nil
	}
}

// Transpile runs the request in a worker; a timeout or death is confirmed once in a fresh
// worker with a longer limit before it is returned as such.
func (p *Pool) Transpile(req WReq, timeout, confirmTimeout time.Duration) (WResp, string, error) {
	for attempt := 0; attempt < 2; attempt++ {
		if p.w == nil {
			w, err := StartWorker()
			if err != nil {
				return WResp{}, "", fmt.Errorf("cannot start worker: %w", err)
			}
			p.w = w
		}
		to := timeout
		if attempt == 1 {
			to = confirmTimeout
			WaitResponsive() // the confirming run must not start while the machine is stalled
		}
		resp, outcome := p.w.Do(req, to)
		if outcome == "ok" {
			return resp, "ok", nil
		}
		p.w.Kill()
		p.w = nil
		if attempt == 1 {
			return resp, outcome, nil
		}
	}
	return WResp{}, "died", nil
}
