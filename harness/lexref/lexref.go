// Package lexref is an independent statement of TypeShell's token grammar (maximal munch,
// Go-unquoted strings, first-terminator comments, 1-based byte positions). It shares only the
// TokenType constants with the lexer under test.
package lexref

import (
	"fmt"
	"strconv"
	"strings"

	"github.com/monstermichl/typeshell/lexer"
)

type Tok struct {
	Type  lexer.TokenType
	Text  string // source text of the token
	Value string // expected Token.Value()
	Row   int
	Col   int
}

var Keywords = map[string]lexer.TokenType{
	"import": lexer.IMPORT, "var": lexer.VAR_DEFINITION, "func": lexer.FUNCTION_DEFINITION, "return": lexer.RETURN,
	"if": lexer.IF, "else": lexer.ELSE, "switch": lexer.SWITCH, "case": lexer.CASE, "default": lexer.DEFAULT,
	"for": lexer.FOR, "range": lexer.RANGE, "break": lexer.BREAK, "continue": lexer.CONTINUE, "nil": lexer.NIL_LITERAL,
	"len": lexer.LEN, "print": lexer.PRINT, "input": lexer.INPUT, "copy": lexer.COPY, "itoa": lexer.ITOA,
	"exists": lexer.EXISTS, "read": lexer.READ, "write": lexer.WRITE, "panic": lexer.PANIC,
	"bool": lexer.DATA_TYPE, "int": lexer.DATA_TYPE, "string": lexer.DATA_TYPE, "error": lexer.DATA_TYPE,
	"true": lexer.BOOL_LITERAL, "false": lexer.BOOL_LITERAL,
}

// Punct lists every punctuation token with its type.
var Punct = map[string]lexer.TokenType{
	"(": lexer.OPENING_ROUND_BRACKET, ")": lexer.CLOSING_ROUND_BRACKET, "[": lexer.OPENING_SQUARE_BRACKET, "]": lexer.CLOSING_SQUARE_BRACKET,
	"{": lexer.OPENING_CURLY_BRACKET, "}": lexer.CLOSING_CURLY_BRACKET,
	"==": lexer.COMPARE_OPERATOR, "!=": lexer.COMPARE_OPERATOR, "<=": lexer.COMPARE_OPERATOR, ">=": lexer.COMPARE_OPERATOR,
	"<": lexer.COMPARE_OPERATOR, ">": lexer.COMPARE_OPERATOR,
	"&&": lexer.LOGICAL_OPERATOR, "||": lexer.LOGICAL_OPERATOR,
	"+=": lexer.COMPOUND_ASSIGN_OPERATOR, "-=": lexer.COMPOUND_ASSIGN_OPERATOR, "*=": lexer.COMPOUND_ASSIGN_OPERATOR,
	"/=": lexer.COMPOUND_ASSIGN_OPERATOR, "%=": lexer.COMPOUND_ASSIGN_OPERATOR,
	"=": lexer.ASSIGN_OPERATOR, ":=": lexer.SHORT_INIT_OPERATOR, "++": lexer.INCREMENT_OPERATOR, "--": lexer.DECREMENT_OPERATOR,
	"!": lexer.UNARY_OPERATOR, "+": lexer.BINARY_OPERATOR, "-": lexer.BINARY_OPERATOR, "*": lexer.BINARY_OPERATOR,
	"/": lexer.BINARY_OPERATOR, "%": lexer.BINARY_OPERATOR,
	",": lexer.COMMA, ":": lexer.COLON, ";": lexer.SEMICOLON, ".": lexer.DOT, "@": lexer.AT, "|": lexer.PIPE,
}

func isIdStart(c byte) bool { return c == '_' || (c >= 'a' && c <= 'z') || (c >= 'A' && c <= 'Z') }
func isDigit(c byte) bool   { return c >= '0' && c <= '9' }
func isIdPart(c byte) bool  { return isIdStart(c) || isDigit(c) }

// EndsOperand tells whether a '-' directly after a token of this type is a binary operator.
func EndsOperand(t lexer.TokenType) bool {
	switch t {
	case lexer.IDENTIFIER, lexer.NUMBER_LITERAL, lexer.STRING_LITERAL, lexer.BOOL_LITERAL, lexer.NIL_LITERAL,
		lexer.CLOSING_ROUND_BRACKET, lexer.CLOSING_SQUARE_BRACKET:
		return true
	}
	return false
}

// Lex splits src. Comments and blanks are dropped, NEWLINE tokens kept; no EOF token is appended.
// Ambiguous reports whether the text contains a '-' directly followed by a digit after an operand
// (the a-1 case, which C12 owns).
func Lex(src string) (toks []Tok, ambiguous bool, err error) {
	src = strings.ReplaceAll(src, "\r\n", "\n")
	row, col := 1, 1
	i := 0
	adv := func(n int) {
		for k := 0; k < n; k++ {
			if src[i] == '\n' {
				row++
				col = 1
			} else {
				col++
			}
			i++
		}
	}
	for i < len(src) {
		c := src[i]
		r0, c0 := row, col
		switch {
		case c == ' ' || c == '\t':
			adv(1)
		case c == '\n':
			toks = append(toks, Tok{lexer.NEWLINE, "\n", "\n", r0, c0})
			adv(1)
		case c == '"':
			j := i + 1
			for j < len(src) && src[j] != '"' {
				if src[j] == '\\' {
					j++
				}
				j++
			}
			if j >= len(src) {
				return toks, ambiguous, fmt.Errorf("unterminated string at %d:%d", r0, c0)
			}
			text := src[i : j+1]
			val, uerr := unquoteInterpreted(text)
			if uerr != nil {
				return toks, ambiguous, fmt.Errorf("bad string literal at %d:%d: %v", r0, c0, uerr)
			}
			toks = append(toks, Tok{lexer.STRING_LITERAL, text, val, r0, c0})
			adv(len(text))
		case c == '`':
			j := strings.IndexByte(src[i+1:], '`')
			if j < 0 {
				return toks, ambiguous, fmt.Errorf("unterminated raw string at %d:%d", r0, c0)
			}
			text := src[i : i+j+2]
			toks = append(toks, Tok{lexer.STRING_LITERAL, text, text[1 : len(text)-1], r0, c0})
			adv(len(text))
		case strings.HasPrefix(src[i:], "//"):
			j := strings.IndexByte(src[i:], '\n')
			if j < 0 {
				j = len(src) - i
			}
			adv(j)
		case strings.HasPrefix(src[i:], "/*"):
			j := strings.Index(src[i+2:], "*/")
			if j < 0 {
				return toks, ambiguous, fmt.Errorf("unterminated block comment at %d:%d", r0, c0)
			}
			adv(j + 4)
		case isDigit(c) || (c == '-' && i+1 < len(src) && isDigit(src[i+1])):
			if c == '-' && len(toks) > 0 && EndsOperand(toks[len(toks)-1].Type) {
				ambiguous = true
				toks = append(toks, Tok{lexer.BINARY_OPERATOR, "-", "-", r0, c0})
				adv(1)
				continue
			}
			j := i + 1
			for j < len(src) && isDigit(src[j]) {
				j++
			}
			text := src[i:j]
			toks = append(toks, Tok{lexer.NUMBER_LITERAL, text, text, r0, c0})
			adv(len(text))
		case isIdStart(c):
			j := i + 1
			for j < len(src) && isIdPart(src[j]) {
				j++
			}
			text := src[i:j]
			tt, ok := Keywords[text]
			if !ok {
				tt = lexer.IDENTIFIER
			}
			toks = append(toks, Tok{tt, text, text, r0, c0})
			adv(len(text))
		default:
			if i+2 <= len(src) {
				if tt, ok := Punct[src[i:i+2]]; ok {
					toks = append(toks, Tok{tt, src[i : i+2], src[i : i+2], r0, c0})
					adv(2)
					continue
				}
			}
			if tt, ok := Punct[src[i:i+1]]; ok {
				toks = append(toks, Tok{tt, src[i : i+1], src[i : i+1], r0, c0})
				adv(1)
				continue
			}
			return toks, ambiguous, fmt.Errorf("unknown character %q at %d:%d", c, r0, c0)
		}
	}
	return toks, ambiguous, nil
}

// unquoteInterpreted is Go's meaning of an interpreted string literal, except that TypeShell
// documents (and its suite tests) literal newlines inside "..." — they stand for themselves.
func unquoteInterpreted(text string) (string, error) {
	if !strings.Contains(text, "\n") {
		return strconv.Unquote(text)
	}
	body := text[1 : len(text)-1]
	var sb strings.Builder
	for len(body) > 0 {
		if body[0] == '\n' {
			sb.WriteByte('\n')
			body = body[1:]
			continue
		}
		r, mb, tail, err := strconv.UnquoteChar(body, '"')
		if err != nil {
			return "", err
		}
		if r < 0x80 || !mb {
			sb.WriteByte(byte(r))
		} else {
			sb.WriteRune(r)
		}
		body = tail
	}
	return sb.String(), nil
}

// Same tells whether concatenating the texts of a and b (b directly after a) re-lexes to exactly
// those two tokens, given the type of the token before a (0 if none).
func Same(prev lexer.TokenType, a, b Tok) bool {
	pre := ""
	switch {
	case EndsOperand(prev):
		pre = "x "
	case prev != 0:
		pre = "( "
	}
	toks, amb, err := Lex(pre + a.Text + b.Text)
	if err != nil || amb {
		return false
	}
	if pre != "" {
		toks = toks[1:]
	}
	if len(toks) != 2 {
		return false
	}
	return toks[0].Type == a.Type && toks[0].Text == a.Text && toks[1].Type == b.Type && toks[1].Text == b.Text
}
