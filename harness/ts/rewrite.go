package ts

// Rewriter rebuilds a statement list.
//   - Site is called top-down for every expression that sits in a typed position (operand,
//     argument, condition, assigned/returned value, index, case expression ...). If it returns
//     replaced=true the result is used as is and not descended into.
//   - Name maps identifiers (role: "var", "func", "param", "alias").
type Rewriter struct {
	Site func(e Expr, kind string) (Expr, bool)
	Name func(name string, role string) string
	Decl func(d VarDecl) VarDecl // after the children were rebuilt
	Func func(f FuncDef) FuncDef // after the children were rebuilt
	Call func(c Call) Call       // after the arguments were rebuilt
}

func (rw *Rewriter) name(n, role string) string {
	if rw.Name == nil || n == "" {
		return n
	}
	return rw.Name(n, role)
}

func (rw *Rewriter) site(e Expr, kind string) Expr {
	if e == nil {
		return nil
	}
	if rw.Site != nil {
		if r, ok := rw.Site(e, kind); ok {
			return r
		}
	}
	return rw.expr(e)
}

func (rw *Rewriter) exprs(es []Expr, kind string) []Expr {
	if es == nil {
		return nil
	}
	out := make([]Expr, len(es))
	for i, e := range es {
		out[i] = rw.site(e, kind)
	}
	return out
}

func (rw *Rewriter) varRef(v VarRef) VarRef { return VarRef{Name: rw.name(v.Name, "var"), Ty: v.Ty} }

// expr rewrites the children of e.
func (rw *Rewriter) expr(e Expr) Expr {
	switch x := e.(type) {
	case nil:
		return nil
	case IntLit, BoolLit, StrLit:
		return e
	case VarRef:
		return rw.varRef(x)
	case Group:
		return Group{E: rw.site(x.E, "group")}
	case Not:
		return Not{E: rw.site(x.E, "not-operand")}
	case Bin:
		return Bin{Op: x.Op, Ty: x.Ty, L: rw.site(x.L, "bin-left"), R: rw.site(x.R, "bin-right")}
	case Cmp:
		return Cmp{Op: x.Op, L: rw.site(x.L, "cmp-left"), R: rw.site(x.R, "cmp-right")}
	case Logic:
		return Logic{Op: x.Op, L: rw.site(x.L, "logic-left"), R: rw.site(x.R, "logic-right")}
	case Call:
		c := Call{Alias: rw.name(x.Alias, "alias"), Name: rw.name(x.Name, "func"), Rets: x.Rets, Args: rw.exprs(x.Args, "argument")}
		if rw.Call != nil {
			c = rw.Call(c)
		}
		return c
	case Index:
		return Index{X: rw.expr(x.X), I: rw.site(x.I, "index"), Ty: x.Ty}
	case Substr:
		return Substr{X: rw.expr(x.X), Lo: rw.site(x.Lo, "bound"), Hi: rw.site(x.Hi, "bound")}
	case Len:
		return Len{X: rw.expr(x.X)}
	case Itoa:
		return Itoa{X: rw.site(x.X, "itoa-arg")}
	case SliceLit:
		return SliceLit{Elem: x.Elem, Elems: rw.exprs(x.Elems, "slice-element")}
	case Copy:
		return Copy{Dst: rw.varRef(x.Dst), Src: rw.expr(x.Src)}
	case Exists:
		return Exists{P: rw.site(x.P, "builtin-arg")}
	case Read:
		return Read{P: rw.site(x.P, "builtin-arg")}
	case Input:
		return Input{Prompt: rw.site(x.Prompt, "builtin-arg")}
	case App:
		o := App{}
		for _, c := range x.Calls {
			args := make([]Expr, len(c.Args))
			for i, a := range c.Args {
				args[i] = rw.expr(a)
			}
			o.Calls = append(o.Calls, AppOne{Name: c.Name, Literal: c.Literal, Raw: c.Raw, Args: args})
		}
		return o
	}
	panic("rewrite: unknown expression")
}

func (rw *Rewriter) names(ns []string) []string {
	out := make([]string, len(ns))
	for i, n := range ns {
		out[i] = rw.name(n, "var")
	}
	return out
}

func (rw *Rewriter) Stmts(ss []Stmt) []Stmt {
	if ss == nil {
		return nil
	}
	out := make([]Stmt, len(ss))
	for i, s := range ss {
		out[i] = rw.stmt(s)
	}
	return out
}

func (rw *Rewriter) stmt(s Stmt) Stmt {
	switch x := s.(type) {
	case nil:
		return nil
	case Comment, Raw, Break, Continue:
		return s
	case VarDecl:
		kind := "untyped-init"
		if x.Form == DeclVarTypeValue {
			kind = "typed-init"
		}
		if len(x.Vals) != len(x.Names) {
			kind = "multi-call-init"
		}
		o := VarDecl{Names: rw.names(x.Names), Ty: x.Ty, Tys: x.Tys, Form: x.Form, Err: x.Err, Reuse: x.Reuse, Vals: rw.exprs(x.Vals, kind)}
		if rw.Decl != nil {
			o = rw.Decl(o)
		}
		return o
	case Assign:
		kind := "assigned-value"
		if len(x.Vals) != len(x.Names) {
			kind = "multi-call-assign"
		}
		return Assign{Names: rw.names(x.Names), Vals: rw.exprs(x.Vals, kind)}
	case OpAssign:
		return OpAssign{Name: rw.name(x.Name, "var"), Ty: x.Ty, Op: x.Op, Val: rw.site(x.Val, "compound-value")}
	case IncDec:
		return IncDec{Name: rw.name(x.Name, "var"), Inc: x.Inc}
	case SetIndex:
		return SetIndex{Name: rw.name(x.Name, "var"), Elem: x.Elem, I: rw.site(x.I, "index"), Val: rw.site(x.Val, "element-value")}
	case If:
		o := If{Cond: rw.site(x.Cond, "condition"), Then: rw.Stmts(x.Then), Else: rw.Stmts(x.Else), HasElse: x.HasElse}
		for _, ei := range x.Elifs {
			o.Elifs = append(o.Elifs, ElseIf{Cond: rw.site(ei.Cond, "condition"), Body: rw.Stmts(ei.Body)})
		}
		return o
	case Switch:
		o := Switch{}
		if x.Tag != nil {
			o.Tag = rw.expr(x.Tag)
		}
		for _, c := range x.Cases {
			nc := Case{Default: c.Default, Body: rw.Stmts(c.Body)}
			if !c.Default {
				nc.E = rw.site(c.E, "case")
			}
			o.Cases = append(o.Cases, nc)
		}
		return o
	case For:
		o := For{Kind: x.Kind, Body: rw.Stmts(x.Body)}
		if x.Init != nil {
			o.Init = rw.stmt(x.Init)
		}
		if x.Cond != nil {
			o.Cond = rw.site(x.Cond, "condition")
		}
		if x.Post != nil {
			o.Post = rw.stmt(x.Post)
		}
		return o
	case Range:
		return Range{I: rw.name(x.I, "var"), V: rw.name(x.V, "var"), X: rw.expr(x.X), Body: rw.Stmts(x.Body)}
	case Return:
		return Return{Vals: rw.exprs(x.Vals, "return-value")}
	case Print:
		out := make([]Expr, len(x.Args))
		for i, a := range x.Args {
			out[i] = rw.expr(a) // print accepts every type: the argument itself is no typed site
		}
		return Print{Args: out}
	case Panic:
		return Panic{E: rw.expr(x.E)}
	case ExprStmt:
		return ExprStmt{E: rw.expr(x.E)}
	case Write:
		o := Write{P: rw.site(x.P, "builtin-arg"), D: rw.site(x.D, "builtin-arg")}
		if x.A != nil {
			o.A = rw.site(x.A, "builtin-arg")
		}
		return o
	case FuncDef:
		o := FuncDef{Name: rw.name(x.Name, "func"), Rets: x.Rets, RetErr: x.RetErr, NoParens: x.NoParens, Body: rw.Stmts(x.Body)}
		for _, p := range x.Params {
			o.Params = append(o.Params, Param{Name: rw.name(p.Name, "param"), Ty: p.Ty, Err: p.Err})
		}
		if rw.Func != nil {
			o = rw.Func(o)
		}
		return o
	}
	panic("rewrite: unknown statement")
}
