package ts

import (
	"fmt"
	"math"
	"path/filepath"
	"strconv"
	"strings"
)

// Reference semantics ("the Go meaning of the same text" with the documented deviations):
// 64-bit wrapping ints, truncating division, bools print as 1/0, eager && / || / if-chains /
// switch cases, panic prints "panic: msg" on stdout and exits 1, slices are growable references.

type SliceVal struct {
	Elem  Type
	Elems []Value
}

type Value interface{} // int64 | bool | string | *SliceVal

// Invalid is returned (as error) when the program leaves the domain the properties quantify over.
type Invalid struct{ Reason string }

func (i Invalid) Error() string { return "invalid: " + i.Reason }

type ctl int

const (
	ctlNone ctl = iota
	ctlBreak
	ctlContinue
	ctlReturn
	ctlExit
)

type frame struct {
	vars map[string]*Value
}

type module struct {
	name    string
	file    *File
	globals map[string]*Value
	funcs   map[string]*FuncDef
	imports map[string]*module // alias -> module
	ran     bool
}

type Result struct {
	Stdout   string
	Status   int
	Steps    int
	FS       map[string]string // virtual file system after the run
	MaxAbs   int64             // largest |int| seen (for the 32-bit profile)
	Overflow bool              // an int operation wrapped around 64 bit
	Events   map[string]int    // dynamic classes (for non-triviality)
}

type Interp struct {
	prog     *Program
	mods     map[string]*module
	out      strings.Builder
	status   int
	steps    int
	MaxSteps int
	FS       map[string]string
	Stdin    []string
	maxAbs   int64
	overflow bool
	retVals  []Value
	frames   []*frame
	curMod   *module
	events   map[string]int
	depth    int
	ctxs     []*stmtCtx
}

// stmtCtx records which global variables the expressions of one statement have read so far.
// Go leaves the order of a variable read relative to a later call in the same statement
// unspecified; a program whose result depends on it is outside the domain (discarded).
type stmtCtx struct {
	depth int
	reads map[string]bool
}

func (in *Interp) beginStmt() {
	in.ctxs = append(in.ctxs, &stmtCtx{depth: in.depth, reads: map[string]bool{}})
}

func (in *Interp) endStmt() { in.ctxs = in.ctxs[:len(in.ctxs)-1] }

func (in *Interp) noteGlobalRead(name string) {
	if len(in.ctxs) > 0 {
		in.ctxs[len(in.ctxs)-1].reads[name] = true
	}
}

func (in *Interp) noteGlobalWrite(name string) {
	for _, c := range in.ctxs {
		if c.depth < in.depth && c.reads[name] {
			panic(Invalid{"unspecified order: variable read before a call that writes it in the same statement"})
		}
	}
}

func NewInterp(p *Program) *Interp {
	return &Interp{prog: p, mods: map[string]*module{}, MaxSteps: 20000, FS: map[string]string{}, events: map[string]int{}}
}

func (in *Interp) ev(name string) { in.events[name]++ }

// Run executes the program. err is Invalid if the program left the specified domain.
func (in *Interp) Run() (res Result, err error) {
	defer func() {
		if r := recover(); r != nil {
			if iv, ok := r.(Invalid); ok {
				err = iv
				return
			}
			panic(r)
		}
	}()
	m := in.loadModule(in.prog.Main, map[string]bool{})
	in.runModule(m)
	return Result{Stdout: in.out.String(), Status: in.status, Steps: in.steps, FS: in.FS, MaxAbs: in.maxAbs, Overflow: in.overflow, Events: in.events}, nil
}

func (in *Interp) loadModule(name string, loading map[string]bool) *module {
	if m, ok := in.mods[name]; ok {
		return m
	}
	f, ok := in.prog.Files[name]
	if !ok {
		panic(Invalid{"missing file " + name})
	}
	if loading[name] {
		panic(Invalid{"import cycle"})
	}
	loading[name] = true
	m := &module{name: name, file: f, globals: map[string]*Value{}, funcs: map[string]*FuncDef{}, imports: map[string]*module{}}
	in.mods[name] = m
	for _, im := range f.Imports {
		target := filepath.Join(filepath.Dir(name), im.Path)
		alias := im.Alias
		if alias == "" {
			alias = strings.TrimSuffix(filepath.Base(im.Path), filepath.Ext(im.Path))
		}
		m.imports[alias] = in.loadModule(target, loading)
	}
	delete(loading, name)
	return m
}

// runModule runs imported modules' top-level code first (import order, depth first, once), then its own.
func (in *Interp) runModule(m *module) ctl {
	if m.ran {
		return ctlNone
	}
	m.ran = true
	for _, im := range m.file.Imports {
		alias := im.Alias
		if alias == "" {
			alias = strings.TrimSuffix(filepath.Base(im.Path), filepath.Ext(im.Path))
		}
		if c := in.runModule(m.imports[alias]); c == ctlExit {
			return c
		}
	}
	saved := in.curMod
	in.curMod = m
	defer func() { in.curMod = saved }()
	in.frames = append(in.frames, &frame{vars: map[string]*Value{}})
	defer func() { in.frames = in.frames[:len(in.frames)-1] }()
	for _, s := range m.file.Stmts {
		if fd, ok := s.(FuncDef); ok {
			fdc := fd
			m.funcs[fd.Name] = &fdc
			continue
		}
		c := in.exec(s, true)
		if c == ctlExit {
			return c
		}
	}
	return ctlNone
}

// capLen keeps generated programs from doubling strings without bound (s += s in nested loops).
func (in *Interp) capLen(s string) string {
	if len(s) > 4000 {
		panic(Invalid{"string-too-long"})
	}
	return s
}

func (in *Interp) step() {
	in.steps++
	if in.steps > in.MaxSteps {
		panic(Invalid{"step-limit"})
	}
}

func zero(t Type) Value {
	switch t {
	case TInt:
		return int64(0)
	case TBool:
		return false
	case TString:
		return ""
	}
	return &SliceVal{Elem: t.Elem()}
}

func (in *Interp) lookup(name string) *Value {
	f := in.frames[len(in.frames)-1]
	if v, ok := f.vars[name]; ok {
		return v
	}
	if v, ok := in.curMod.globals[name]; ok {
		return v
	}
	panic(Invalid{"undefined variable " + name})
}

func (in *Interp) note(i int64) {
	a := i
	if a < 0 {
		if a == math.MinInt64 {
			a = math.MaxInt64
		} else {
			a = -a
		}
	}
	if a > in.maxAbs {
		in.maxAbs = a
	}
}

func FormatValue(v Value) string {
	switch x := v.(type) {
	case int64:
		return strconv.FormatInt(x, 10)
	case bool:
		if x {
			return "1"
		}
		return "0"
	case string:
		return x
	}
	panic(Invalid{"printing a slice"})
}

func (in *Interp) evalMulti(e Expr) []Value {
	if _, ok := e.(App); ok {
		panic(Invalid{"app call (not interpretable)"})
	}
	if c, ok := e.(Call); ok {
		return in.call(c)
	}
	if g, ok := e.(Group); ok {
		return in.evalMulti(g.E)
	}
	return []Value{in.eval(e)}
}

func (in *Interp) eval(e Expr) Value {
	in.step()
	switch x := e.(type) {
	case IntLit:
		in.note(x.V)
		return x.V
	case BoolLit:
		return x.V
	case StrLit:
		return x.V
	case VarRef:
		if _, local := in.frames[len(in.frames)-1].vars[x.Name]; !local {
			in.noteGlobalRead(x.Name)
		}
		return *in.lookup(x.Name)
	case Group:
		return in.eval(x.E)
	case Not:
		return !in.eval(x.E).(bool)
	case Logic:
		l := in.eval(x.L).(bool)
		r := in.eval(x.R).(bool) // eager: both operands are always evaluated
		if x.Op == "&&" {
			if !l {
				in.ev("and-right-evaluated-though-left-false")
			}
			return l && r
		}
		if l {
			in.ev("or-right-evaluated-though-left-true")
		}
		return l || r
	case Cmp:
		l := in.eval(x.L)
		r := in.eval(x.R)
		return compare(x.Op, l, r)
	case Bin:
		l := in.eval(x.L)
		r := in.eval(x.R)
		if x.Ty == TString {
			return in.capLen(l.(string) + r.(string))
		}
		return in.arith(x.Op, l.(int64), r.(int64))
	case Call:
		vs := in.call(x)
		if len(vs) != 1 {
			panic(Invalid{"call used as single value returns " + strconv.Itoa(len(vs))})
		}
		return vs[0]
	case Index:
		base := in.eval(x.X)
		i := in.eval(x.I).(int64)
		switch b := base.(type) {
		case *SliceVal:
			if i < 0 || i >= int64(len(b.Elems)) {
				panic(Invalid{"slice index out of range"})
			}
			if i >= 10 {
				in.ev("two-digit-index-read")
			}
			return b.Elems[i]
		case string:
			if i < 0 || i >= int64(len(b)) {
				panic(Invalid{"string index out of range"})
			}
			return b[i : i+1]
		}
		panic(Invalid{"index of non-indexable"})
	case Substr:
		s := in.eval(x.X).(string)
		lo, hi := int64(0), int64(len(s))
		if x.Lo != nil {
			lo = in.eval(x.Lo).(int64)
		}
		if x.Hi != nil {
			hi = in.eval(x.Hi).(int64)
		}
		if lo < 0 || hi < lo || hi > int64(len(s)) {
			panic(Invalid{"substring bounds out of range"})
		}
		if lo == hi {
			in.ev("empty-substring")
		}
		return s[lo:hi]
	case Len:
		switch b := in.eval(x.X).(type) {
		case *SliceVal:
			return int64(len(b.Elems))
		case string:
			return int64(len(b))
		}
		panic(Invalid{"len of non-sequence"})
	case Itoa:
		return strconv.FormatInt(in.eval(x.X).(int64), 10)
	case SliceLit:
		sv := &SliceVal{Elem: x.Elem}
		for _, el := range x.Elems {
			sv.Elems = append(sv.Elems, in.eval(el))
		}
		return sv
	case Copy:
		src := in.eval(x.Src).(*SliceVal)
		dst := (*in.lookup(x.Dst.Name)).(*SliceVal)
		if len(dst.Elems) > len(src.Elems) {
			panic(Invalid{"copy into a longer destination"})
		}
		// the property's wording: dst[i] == src[i] for every i < len(src), reports that count
		n := len(src.Elems)
		vals := append([]Value{}, src.Elems...)
		for i := 0; i < n; i++ {
			if i < len(dst.Elems) {
				dst.Elems[i] = vals[i]
			} else {
				dst.Elems = append(dst.Elems, vals[i])
			}
		}
		return int64(n)
	case Exists:
		p := in.eval(x.P).(string)
		_, ok := in.FS[p]
		return ok
	case Read:
		p := in.eval(x.P).(string)
		c, ok := in.FS[p]
		if !ok {
			panic(Invalid{"read of a missing file"})
		}
		return strings.TrimSuffix(c, "\n")
	case App:
		panic(Invalid{"app call (not interpretable)"})
	case Input:
		if x.Prompt != nil {
			in.eval(x.Prompt)
		}
		if len(in.Stdin) == 0 {
			panic(Invalid{"input at end of stdin"})
		}
		l := in.Stdin[0]
		in.Stdin = in.Stdin[1:]
		return l
	}
	panic(fmt.Sprintf("eval: unknown expression %T", e))
}

func compare(op string, l, r Value) bool {
	switch a := l.(type) {
	case int64:
		b := r.(int64)
		switch op {
		case "==":
			return a == b
		case "!=":
			return a != b
		case "<":
			return a < b
		case "<=":
			return a <= b
		case ">":
			return a > b
		case ">=":
			return a >= b
		}
	case bool:
		b := r.(bool)
		switch op {
		case "==":
			return a == b
		case "!=":
			return a != b
		}
	case string:
		b := r.(string)
		switch op {
		case "==":
			return a == b
		case "!=":
			return a != b
		}
		panic(Invalid{"ordering comparison of strings"})
	}
	panic(Invalid{"bad comparison " + op})
}

func (in *Interp) arith(op string, a, b int64) int64 {
	var r int64
	switch op {
	case "+":
		r = a + b
		if (b > 0 && r < a) || (b < 0 && r > a) {
			in.overflow = true
		}
	case "-":
		r = a - b
		if (b > 0 && r > a) || (b < 0 && r < a) {
			in.overflow = true
		}
	case "*":
		r = a * b
		if a != 0 && (r/a != b || (a == -1 && b == math.MinInt64)) {
			in.overflow = true
		}
	case "/":
		if b == 0 {
			panic(Invalid{"division by zero"})
		}
		if a == math.MinInt64 && b == -1 {
			in.overflow = true
			r = a
		} else {
			r = a / b
		}
	case "%":
		if b == 0 {
			panic(Invalid{"modulo by zero"})
		}
		if b == -1 {
			r = 0
		} else {
			r = a % b
		}
	default:
		panic("arith: " + op)
	}
	in.note(r)
	return r
}

func (in *Interp) call(c Call) []Value {
	in.step()
	mod := in.curMod
	if c.Alias != "" {
		m, ok := mod.imports[c.Alias]
		if !ok {
			panic(Invalid{"unknown alias " + c.Alias})
		}
		mod = m
	}
	fd, ok := mod.funcs[c.Name]
	if !ok {
		panic(Invalid{"call of undefined function " + c.Name})
	}
	args := make([]Value, len(c.Args))
	for i, a := range c.Args {
		args[i] = in.eval(a)
	}
	if len(args) != len(fd.Params) {
		panic(Invalid{"arity"})
	}
	in.depth++
	if in.depth > 50 {
		panic(Invalid{"recursion"})
	}
	fr := &frame{vars: map[string]*Value{}}
	for i, p := range fd.Params {
		v := args[i]
		fr.vars[p.Name] = &v
	}
	savedMod := in.curMod
	in.curMod = mod
	in.frames = append(in.frames, fr)
	in.retVals = nil
	var cc ctl
	for _, s := range fd.Body {
		cc = in.exec(s, false)
		if cc != ctlNone {
			break
		}
	}
	in.frames = in.frames[:len(in.frames)-1]
	in.curMod = savedMod
	in.depth--
	if cc == ctlExit {
		panic(exitSignal{})
	}
	rv := in.retVals
	in.retVals = nil
	if len(fd.Rets) > 0 && cc != ctlReturn {
		panic(Invalid{"function fell off its end"})
	}
	return rv
}

type exitSignal struct{}

// exec runs one statement. top reports whether the statement is directly at file level.
func (in *Interp) exec(s Stmt, top bool) (c ctl) {
	defer func() {
		if r := recover(); r != nil {
			if _, ok := r.(exitSignal); ok {
				c = ctlExit
				return
			}
			panic(r)
		}
	}()
	return in.exec1(s, top)
}

func (in *Interp) setVar(name string, v Value) {
	if _, local := in.frames[len(in.frames)-1].vars[name]; !local {
		in.noteGlobalWrite(name)
	}
	p := in.lookup(name)
	*p = v
}

func (in *Interp) defineVar(name string, v Value, top bool) {
	vv := v
	if top && len(in.frames) >= 1 && in.inModuleTop() {
		in.curMod.globals[name] = &vv
		// a block-local of an earlier sibling block with the same spelling is out of scope by now
		delete(in.frames[len(in.frames)-1].vars, name)
		return
	}
	in.frames[len(in.frames)-1].vars[name] = &vv
}

// inModuleTop: executing a module's top-level code (not inside a function call).
func (in *Interp) inModuleTop() bool { return in.depth == 0 }

func (in *Interp) block(body []Stmt) ctl {
	for _, s := range body {
		if c := in.exec1(s, false); c != ctlNone {
			return c
		}
	}
	return ctlNone
}

func (in *Interp) exec1(s Stmt, top bool) ctl {
	in.step()
	switch s.(type) {
	case If, Switch, For, Range:
		return in.exec2(s, top)
	}
	in.beginStmt()
	defer in.endStmt()
	return in.exec2(s, top)
}

func (in *Interp) exec2(s Stmt, top bool) ctl {
	switch x := s.(type) {
	case Comment, Raw:
		return ctlNone
	case VarDecl:
		if len(x.Vals) == 0 {
			for i, n := range x.Names {
				t := x.Ty
				if len(x.Tys) > i {
					t = x.Tys[i]
				}
				in.defineVar(n, zero(t), top)
			}
			return ctlNone
		}
		var vals []Value
		if len(x.Vals) == 1 && len(x.Names) > 1 {
			vals = in.evalMulti(x.Vals[0])
		} else {
			for _, e := range x.Vals {
				vals = append(vals, in.eval(e))
			}
		}
		if len(vals) != len(x.Names) {
			panic(Invalid{"definition count mismatch"})
		}
		for i, n := range x.Names {
			if i < len(x.Reuse) && x.Reuse[i] {
				in.setVar(n, vals[i]) // ":=" next to a new name re-uses a variable of the same block
				continue
			}
			in.defineVar(n, vals[i], top)
		}
	case Assign:
		var vals []Value
		if len(x.Vals) == 1 && len(x.Names) > 1 {
			vals = in.evalMulti(x.Vals[0])
		} else {
			for _, e := range x.Vals {
				vals = append(vals, in.eval(e))
			}
		}
		if len(vals) != len(x.Names) {
			panic(Invalid{"assignment count mismatch"})
		}
		for i, n := range x.Names {
			in.setVar(n, vals[i])
		}
	case OpAssign:
		// x op= e reads x; Go leaves the order of that read relative to a call inside e unspecified
		if _, local := in.frames[len(in.frames)-1].vars[x.Name]; !local {
			in.noteGlobalRead(x.Name)
		}
		cur := *in.lookup(x.Name)
		v := in.eval(x.Val)
		if now := *in.lookup(x.Name); now != cur {
			panic(Invalid{"unspecified order: compound assignment whose right-hand side changes the target"})
		}
		if x.Ty == TString {
			in.setVar(x.Name, in.capLen(cur.(string)+v.(string)))
		} else {
			in.setVar(x.Name, in.arith(x.Op, cur.(int64), v.(int64)))
		}
	case IncDec:
		cur := (*in.lookup(x.Name)).(int64)
		if x.Inc {
			in.setVar(x.Name, in.arith("+", cur, 1))
		} else {
			in.ev("dec")
			in.setVar(x.Name, in.arith("-", cur, 1))
		}
	case SetIndex:
		i := in.eval(x.I).(int64)
		v := in.eval(x.Val)
		sv := (*in.lookup(x.Name)).(*SliceVal)
		if i < 0 {
			panic(Invalid{"negative index"})
		}
		if i > int64(len(sv.Elems))+64 {
			panic(Invalid{"growth too large"})
		}
		if i >= int64(len(sv.Elems)) {
			if i > int64(len(sv.Elems)) {
				in.ev("grow-gap")
			}
			in.ev("grow")
		}
		for int64(len(sv.Elems)) < i {
			sv.Elems = append(sv.Elems, zero(sv.Elem))
		}
		if i == int64(len(sv.Elems)) {
			sv.Elems = append(sv.Elems, v)
		} else {
			sv.Elems[i] = v
		}
		if i >= 10 {
			in.ev("two-digit-index-write")
		}
	case If:
		// all conditions of the chain are evaluated before any branch (README: Condition evaluation)
		in.beginStmt()
		conds := []bool{in.eval(x.Cond).(bool)}
		for _, ei := range x.Elifs {
			conds = append(conds, in.eval(ei.Cond).(bool))
		}
		in.endStmt()
		if conds[0] {
			in.ev("if-taken")
			return in.block(x.Then)
		}
		for i, ei := range x.Elifs {
			if conds[i+1] {
				in.ev("elif-taken")
				return in.block(ei.Body)
			}
		}
		if x.HasElse {
			in.ev("else-taken")
			return in.block(x.Else)
		}
		in.ev("if-none-taken")
	case Switch:
		type br struct {
			hit  bool
			body []Stmt
		}
		var brs []br
		var def []Stmt
		hasDef := false
		in.beginStmt()
		for _, cs := range x.Cases {
			if cs.Default {
				def = cs.Body
				hasDef = true
				continue
			}
			var tag Value = true
			if x.Tag != nil {
				tag = in.eval(x.Tag)
			}
			cv := in.eval(cs.E)
			brs = append(brs, br{compare("==", tag, cv), cs.Body})
		}
		in.endStmt()
		for _, b := range brs {
			if b.hit {
				in.ev("case-taken")
				return in.swBlock(b.body)
			}
		}
		if hasDef {
			in.ev("default-taken")
			return in.swBlock(def)
		}
	case For:
		if x.Init != nil {
			if c := in.exec1(x.Init, false); c != ctlNone {
				return c
			}
		}
		first := true
		iters := 0
		for {
			in.step()
			if !first && x.Post != nil {
				if c := in.exec1(x.Post, false); c != ctlNone {
					return c
				}
			}
			first = false
			if x.Cond != nil {
				in.beginStmt()
				cv := in.eval(x.Cond).(bool)
				in.endStmt()
				if !cv {
					break
				}
			}
			iters++
			if iters >= 2 {
				in.ev("loop-2-iterations")
			}
			c := in.block(x.Body)
			if c == ctlBreak {
				in.ev("break")
				break
			}
			if c == ctlContinue {
				in.ev("continue")
				continue
			}
			if c != ctlNone {
				return c
			}
		}
	case Range:
		i := int64(0)
		for {
			in.step()
			seq := in.eval(x.X)
			var n int64
			switch b := seq.(type) {
			case *SliceVal:
				n = int64(len(b.Elems))
			case string:
				n = int64(len(b))
			}
			if i >= n {
				break
			}
			in.defineVar(x.I, i, false)
			if x.V != "" {
				switch b := in.eval(x.X).(type) {
				case *SliceVal:
					if i >= int64(len(b.Elems)) {
						panic(Invalid{"slice resized while ranging"})
					}
					in.defineVar(x.V, b.Elems[i], false)
				case string:
					in.defineVar(x.V, b[i:i+1], false)
				}
			}
			c := in.block(x.Body)
			// the loop variable is an ordinary variable of the desugared loop: the body may not change it (generator never does)
			cur := (*in.lookup(x.I)).(int64)
			if cur != i {
				panic(Invalid{"range index modified"})
			}
			if c == ctlBreak {
				break
			}
			if c != ctlNone && c != ctlContinue {
				return c
			}
			i++
		}
	case Break:
		return ctlBreak
	case Continue:
		return ctlContinue
	case Return:
		vals := []Value{}
		for _, e := range x.Vals {
			vals = append(vals, in.eval(e))
		}
		in.retVals = vals
		return ctlReturn
	case Print:
		parts := []string{}
		for _, a := range x.Args {
			for _, v := range in.evalMulti(a) {
				parts = append(parts, FormatValue(v))
			}
		}
		in.out.WriteString(strings.Join(parts, " ") + "\n")
	case Panic:
		msg := in.eval(x.E).(string)
		in.out.WriteString("panic: " + msg + "\n")
		in.status = 1
		return ctlExit
	case ExprStmt:
		if _, ok := x.E.(App); ok {
			panic(Invalid{"app call (not interpretable)"})
		}
		if c, ok := x.E.(Call); ok {
			in.call(c)
		} else {
			in.eval(x.E)
		}
	case Write:
		p := in.eval(x.P).(string)
		d := in.eval(x.D).(string)
		app := false
		if x.A != nil {
			app = in.eval(x.A).(bool)
		}
		if app {
			in.FS[p] = in.FS[p] + d + "\n"
		} else {
			in.FS[p] = d + "\n"
		}
	case FuncDef:
		panic(Invalid{"nested function definition"})
	default:
		panic(fmt.Sprintf("exec: unknown statement %T", s))
	}
	return ctlNone
}

// swBlock runs a case body: a break directly inside is outside the specified domain.
func (in *Interp) swBlock(body []Stmt) ctl {
	c := in.block(body)
	if c == ctlBreak {
		panic(Invalid{"break inside switch"})
	}
	return c
}

func (in *Interp) visible(name string) bool {
	f := in.frames[len(in.frames)-1]
	if _, ok := f.vars[name]; ok {
		return true
	}
	_, ok := in.curMod.globals[name]
	return ok
}
