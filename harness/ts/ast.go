// Package ts is the harness's own model of TypeShell programs: AST, printer and reference
// interpreter. It shares no code with the lexer/parser/transpiler under test.
package ts

type Type int

const (
	TInt Type = iota
	TBool
	TString
	TIntS
	TBoolS
	TStringS
	TVoid
)

var AllScalar = []Type{TInt, TBool, TString}
var AllSlice = []Type{TIntS, TBoolS, TStringS}

func (t Type) IsSlice() bool { return t == TIntS || t == TBoolS || t == TStringS }

func (t Type) Elem() Type {
	switch t {
	case TIntS:
		return TInt
	case TBoolS:
		return TBool
	case TStringS:
		return TString
	}
	return t
}

func (t Type) SliceOf() Type {
	switch t {
	case TInt:
		return TIntS
	case TBool:
		return TBoolS
	case TString:
		return TStringS
	}
	return t
}

func (t Type) String() string {
	switch t {
	case TInt:
		return "int"
	case TBool:
		return "bool"
	case TString:
		return "string"
	case TIntS:
		return "[]int"
	case TBoolS:
		return "[]bool"
	case TStringS:
		return "[]string"
	}
	return "void"
}

// ---- expressions ----

type Expr interface{ T() Type }

type IntLit struct {
	V   int64
	Oct bool // spelled with a leading zero (Go: octal), only for V >= 0
}
type BoolLit struct{ V bool }
type StrLit struct {
	V   string
	Raw bool // print as `raw` when possible
	Nil bool // print as nil
}
type VarRef struct {
	Name string
	Ty   Type
}
type Bin struct {
	Op   string // + - * / % (int), + (string)
	L, R Expr
	Ty   Type
}
type Cmp struct {
	Op   string
	L, R Expr
}
type Logic struct {
	Op   string // && ||
	L, R Expr
}
type Not struct{ E Expr }
type Group struct{ E Expr }
type Call struct {
	Alias string
	Name  string
	Args  []Expr
	Rets  []Type
}
type Index struct {
	X  Expr // VarRef of slice or string type
	I  Expr
	Ty Type
}
type Substr struct {
	X      Expr
	Lo, Hi Expr // nil = omitted
}
type Len struct{ X Expr }
type Itoa struct{ X Expr }
type SliceLit struct {
	Elem  Type
	Elems []Expr
}
type Copy struct {
	Dst VarRef
	Src Expr
}
type Exists struct{ P Expr }
type Read struct{ P Expr }
type Input struct{ Prompt Expr } // Prompt may be nil

// AppOne is one program call of a pipeline: @name(args) or @"path"(args).
type AppOne struct {
	Name    string
	Literal bool // name given as string literal
	Raw     bool // ... as raw string literal
	Args    []Expr
}

// App is a call chain @a(...) | @b(...). As a value it yields (stdout string, stderr string, code int).
type App struct{ Calls []AppOne }

func (IntLit) T() Type   { return TInt }
func (BoolLit) T() Type  { return TBool }
func (StrLit) T() Type   { return TString }
func (v VarRef) T() Type { return v.Ty }
func (b Bin) T() Type    { return b.Ty }
func (Cmp) T() Type      { return TBool }
func (Logic) T() Type    { return TBool }
func (Not) T() Type      { return TBool }
func (g Group) T() Type  { return g.E.T() }
func (c Call) T() Type {
	if len(c.Rets) == 1 {
		return c.Rets[0]
	}
	return TVoid
}
func (i Index) T() Type    { return i.Ty }
func (Substr) T() Type     { return TString }
func (Len) T() Type        { return TInt }
func (Itoa) T() Type       { return TString }
func (s SliceLit) T() Type { return s.Elem.SliceOf() }
func (Copy) T() Type       { return TInt }
func (Exists) T() Type     { return TBool }
func (Read) T() Type       { return TString }
func (Input) T() Type      { return TString }
func (App) T() Type        { return TVoid }

// ---- statements ----

type Stmt interface{}

const (
	DeclVarType      = iota // var a T
	DeclVarTypeValue        // var a T = e
	DeclVarValue            // var a = e
	DeclShort               // a := e
)

type VarDecl struct {
	Names []string
	Ty    Type // declared type (for forms with a type) / type of every name
	Tys   []Type
	Vals  []Expr // empty for DeclVarType; one multi-valued call allowed
	Form  int
	Err   bool   // a declared string type spelled "error"
	Reuse []bool // per name: true = the name exists in the same block already (legal with := next to a new name): plain assignment
}
type Assign struct {
	Names []string
	Vals  []Expr
}
type OpAssign struct {
	Name string
	Ty   Type
	Op   string // + - * / %
	Val  Expr
}
type IncDec struct {
	Name string
	Inc  bool
}
type SetIndex struct {
	Name string
	Elem Type
	I    Expr
	Val  Expr
}
type ElseIf struct {
	Cond Expr
	Body []Stmt
}
type If struct {
	Cond    Expr
	Then    []Stmt
	Elifs   []ElseIf
	Else    []Stmt
	HasElse bool
}
type Case struct {
	E       Expr
	Default bool
	Body    []Stmt
}
type Switch struct {
	Tag   Expr // nil: "switch {"
	Cases []Case
}

const (
	ForEver   = iota // for {
	ForCond          // for c {
	ForClause        // for init; cond; post {
)

type For struct {
	Kind int
	Init Stmt // may be nil
	Cond Expr // may be nil
	Post Stmt // may be nil
	Body []Stmt
}
type Range struct {
	I, V string // V may be ""
	X    Expr
	Body []Stmt
}
type Break struct{}
type Continue struct{}
type Return struct{ Vals []Expr }
type Print struct{ Args []Expr }
type Panic struct{ E Expr }
type ExprStmt struct{ E Expr }
type Write struct {
	P, D Expr
	A    Expr // may be nil
}
type Param struct {
	Name string
	Ty   Type
	Err  bool // a string type spelled "error"
}
type FuncDef struct {
	Name     string
	Params   []Param
	Rets     []Type
	RetErr   []bool // per return value: a string type spelled "error" (nil = none)
	Body     []Stmt
	NoParens bool // "func f {" for zero parameters
}

// Raw is a line of target text emitted verbatim by the printer (only used when programs are
// rendered as Go source for the cross-validation of the reference interpreter).
type Raw struct{ Text string }

// Comment is a free-standing line comment (used by generators to vary file hashes).
type Comment struct{ Text string }

type Import struct {
	Alias string
	Path  string
}

type File struct {
	Imports      []Import
	GroupImports bool
	Stmts        []Stmt
}

// Program is a set of files; Main is the entry file name.
type Program struct {
	Files map[string]*File
	Main  string
}

func Single(stmts []Stmt) *Program {
	return &Program{Files: map[string]*File{"main.tsh": {Stmts: stmts}}, Main: "main.tsh"}
}
