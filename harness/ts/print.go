package ts

import (
	"fmt"
	"strconv"
	"strings"
)

// Printer options: house style of the repository's tests (tabs, LF, blanks around operators).
type Printer struct {
	sb     strings.Builder
	indent int
}

func prec(e Expr) int {
	switch x := e.(type) {
	case Logic:
		if x.Op == "||" {
			return 1
		}
		return 2
	case Cmp:
		return 3
	case Bin:
		switch x.Op {
		case "+", "-":
			return 4
		}
		return 5
	case Not:
		return 6
	}
	return 7
}

// spell prints a type; a string may be spelled "error" (the README: error is just a string type).
func spell(t Type, err bool) string {
	if err && t == TString {
		return "error"
	}
	return t.String()
}

// noNil: the value of an untyped definition cannot be the bare nil (no type to infer); it is printed as "".
func noNil(es []Expr) []Expr {
	out := make([]Expr, len(es))
	for i, e := range es {
		if l, ok := e.(StrLit); ok && l.Nil {
			l.Nil = false
			e = l
		}
		out[i] = e
	}
	return out
}

func QuoteString(s StrLit) string {
	if s.Nil && s.V == "" {
		return "nil"
	}
	if s.Raw && !strings.Contains(s.V, "`") && !strings.Contains(s.V, "\r") {
		return "`" + s.V + "`"
	}
	return strconv.Quote(s.V)
}

// ExprString prints e with the minimum parentheses Go's precedence/associativity requires.
func ExprString(e Expr) string {
	switch x := e.(type) {
	case IntLit:
		if x.Oct && x.V >= 0 {
			return "0" + strconv.FormatInt(x.V, 8)
		}
		return strconv.FormatInt(x.V, 10)
	case BoolLit:
		if x.V {
			return "true"
		}
		return "false"
	case StrLit:
		return QuoteString(x)
	case VarRef:
		return x.Name
	case Group:
		return "(" + ExprString(x.E) + ")"
	case Not:
		// "!-1" is never produced: the operand is wrapped unless it is a primary; a negation of a negation is "!!x"
		if _, nn := x.E.(Not); nn {
			return "!" + ExprString(x.E)
		}
		if prec(x.E) < 7 {
			return "!(" + ExprString(x.E) + ")"
		}
		return "!" + ExprString(x.E)
	case Bin:
		return binString(x, x.Op, x.L, x.R)
	case Cmp:
		return binString(x, x.Op, x.L, x.R)
	case Logic:
		return binString(x, x.Op, x.L, x.R)
	case Call:
		args := make([]string, len(x.Args))
		for i, a := range x.Args {
			args[i] = ExprString(a)
		}
		name := x.Name
		if x.Alias != "" {
			name = x.Alias + "." + name
		}
		return name + "(" + strings.Join(args, ", ") + ")"
	case Index:
		return ExprString(x.X) + "[" + ExprString(x.I) + "]"
	case Substr:
		lo, hi := "", ""
		if x.Lo != nil {
			lo = ExprString(x.Lo)
		}
		if x.Hi != nil {
			hi = ExprString(x.Hi)
		}
		return ExprString(x.X) + "[" + lo + ":" + hi + "]"
	case Len:
		return "len(" + ExprString(x.X) + ")"
	case Itoa:
		return "itoa(" + ExprString(x.X) + ")"
	case SliceLit:
		el := make([]string, len(x.Elems))
		for i, a := range x.Elems {
			el[i] = ExprString(a)
		}
		return "[]" + x.Elem.String() + "{" + strings.Join(el, ", ") + "}"
	case Copy:
		return "copy(" + x.Dst.Name + ", " + ExprString(x.Src) + ")"
	case Exists:
		return "exists(" + ExprString(x.P) + ")"
	case Read:
		return "read(" + ExprString(x.P) + ")"
	case App:
		parts := []string{}
		for _, c := range x.Calls {
			name := c.Name
			if c.Literal {
				name = QuoteString(StrLit{V: c.Name, Raw: c.Raw})
			}
			parts = append(parts, "@"+name+"("+exprList(c.Args)+")")
		}
		return strings.Join(parts, " | ")
	case Input:
		if x.Prompt == nil {
			return "input()"
		}
		return "input(" + ExprString(x.Prompt) + ")"
	}
	panic(fmt.Sprintf("ExprString: unknown expression %T", e))
}

func binString(parent Expr, op string, l, r Expr) string {
	p := prec(parent)
	ls, rs := ExprString(l), ExprString(r)
	if prec(l) < p {
		ls = "(" + ls + ")"
	}
	// all binary operators are left-associative: an operand of equal precedence on the right needs parentheses
	if prec(r) <= p {
		rs = "(" + rs + ")"
	}
	return ls + " " + op + " " + rs
}

func (p *Printer) line(s string) {
	p.sb.WriteString(strings.Repeat("\t", p.indent))
	p.sb.WriteString(s)
	p.sb.WriteByte('\n')
}

func exprList(es []Expr) string {
	out := make([]string, len(es))
	for i, e := range es {
		out[i] = ExprString(e)
	}
	return strings.Join(out, ", ")
}

// SimpleStmtString prints a statement that fits on one line (used for for-clauses too).
func SimpleStmtString(s Stmt) string {
	switch x := s.(type) {
	case VarDecl:
		names := strings.Join(x.Names, ", ")
		tyName := spell(x.Ty, x.Err)
		switch x.Form {
		case DeclVarType:
			return "var " + names + " " + tyName
		case DeclVarTypeValue:
			return "var " + names + " " + tyName + " = " + exprList(x.Vals)
		case DeclVarValue:
			return "var " + names + " = " + exprList(noNil(x.Vals))
		default:
			return names + " := " + exprList(noNil(x.Vals))
		}
	case Assign:
		return strings.Join(x.Names, ", ") + " = " + exprList(x.Vals)
	case OpAssign:
		return x.Name + " " + x.Op + "= " + ExprString(x.Val)
	case IncDec:
		if x.Inc {
			return x.Name + "++"
		}
		return x.Name + "--"
	case SetIndex:
		return x.Name + "[" + ExprString(x.I) + "] = " + ExprString(x.Val)
	case Break:
		return "break"
	case Continue:
		return "continue"
	case Return:
		if len(x.Vals) == 0 {
			return "return"
		}
		return "return " + exprList(x.Vals)
	case Print:
		return "print(" + exprList(x.Args) + ")"
	case Panic:
		return "panic(" + ExprString(x.E) + ")"
	case ExprStmt:
		return ExprString(x.E)
	case Write:
		if x.A == nil {
			return "write(" + ExprString(x.P) + ", " + ExprString(x.D) + ")"
		}
		return "write(" + ExprString(x.P) + ", " + ExprString(x.D) + ", " + ExprString(x.A) + ")"
	case Comment:
		return "// " + x.Text
	case Raw:
		return x.Text
	}
	return ""
}

func (p *Printer) block(body []Stmt) {
	p.indent++
	for _, s := range body {
		p.stmt(s)
	}
	p.indent--
}

func (p *Printer) stmt(s Stmt) {
	if str := SimpleStmtString(s); str != "" {
		p.line(str)
		return
	}
	switch x := s.(type) {
	case If:
		p.line("if " + ExprString(x.Cond) + " {")
		p.block(x.Then)
		for _, ei := range x.Elifs {
			p.line("} else if " + ExprString(ei.Cond) + " {")
			p.block(ei.Body)
		}
		if x.HasElse {
			p.line("} else {")
			p.block(x.Else)
		}
		p.line("}")
	case Switch:
		if x.Tag == nil {
			p.line("switch {")
		} else {
			p.line("switch " + ExprString(x.Tag) + " {")
		}
		for _, c := range x.Cases {
			if c.Default {
				p.line("default:")
			} else {
				p.line("case " + ExprString(c.E) + ":")
			}
			p.block(c.Body)
		}
		p.line("}")
	case For:
		switch x.Kind {
		case ForEver:
			p.line("for {")
		case ForCond:
			p.line("for " + ExprString(x.Cond) + " {")
		default:
			init, cond, post := "", "", ""
			if x.Init != nil {
				init = SimpleStmtString(x.Init)
			}
			if x.Cond != nil {
				cond = " " + ExprString(x.Cond)
			}
			if x.Post != nil {
				post = " " + SimpleStmtString(x.Post) + " "
			} else {
				post = " "
			}
			p.line("for " + init + ";" + cond + ";" + post + "{")
		}
		p.block(x.Body)
		p.line("}")
	case Range:
		vars := x.I
		if x.V != "" {
			vars += ", " + x.V
		}
		p.line("for " + vars + " := range " + ExprString(x.X) + " {")
		p.block(x.Body)
		p.line("}")
	case FuncDef:
		params := []string{}
		for _, pa := range x.Params {
			params = append(params, pa.Name+" "+spell(pa.Ty, pa.Err))
		}
		head := "func " + x.Name
		if !(x.NoParens && len(x.Params) == 0) {
			head += "(" + strings.Join(params, ", ") + ")"
		}
		switch len(x.Rets) {
		case 0:
		case 1:
			head += " " + spell(x.Rets[0], len(x.RetErr) > 0 && x.RetErr[0])
		default:
			rs := []string{}
			for i, r := range x.Rets {
				rs = append(rs, spell(r, i < len(x.RetErr) && x.RetErr[i]))
			}
			head += " (" + strings.Join(rs, ", ") + ")"
		}
		p.line(head + " {")
		p.block(x.Body)
		p.line("}")
	default:
		panic(fmt.Sprintf("print: unknown statement %T", s))
	}
}

// FileString prints one file in house style.
func FileString(f *File) string {
	p := &Printer{}
	if len(f.Imports) > 0 {
		if f.GroupImports || len(f.Imports) > 1 {
			p.line("import (")
			p.indent++
			for _, im := range f.Imports {
				if im.Alias != "" {
					p.line(im.Alias + " " + strconv.Quote(im.Path))
				} else {
					p.line(strconv.Quote(im.Path))
				}
			}
			p.indent--
			p.line(")")
		} else {
			im := f.Imports[0]
			if im.Alias != "" {
				p.line("import " + im.Alias + " " + strconv.Quote(im.Path))
			} else {
				p.line("import " + strconv.Quote(im.Path))
			}
		}
	}
	for _, s := range f.Stmts {
		p.stmt(s)
	}
	return p.sb.String()
}

// Sources prints every file of the program.
func Sources(pr *Program) map[string]string {
	out := map[string]string{}
	for name, f := range pr.Files {
		out[name] = FileString(f)
	}
	return out
}

// StmtsString prints a statement list (single-file programs).
func StmtsString(stmts []Stmt) string {
	return FileString(&File{Stmts: stmts})
}
