// Package rep collects what a shard of a check explored (counts, classes, samples,
// violations) and writes it as JSON for bin/check to merge into /verif/evidence/<id>.json.
package rep

import (
	"bufio"
	"crypto/sha256"
	"encoding/hex"
	"encoding/json"
	"fmt"
	"os"
	"path/filepath"
	"sort"
	"strconv"
	"strings"
	"sync"
	"testing"
)

// Sig is the structured signature of a violation (see DESIGN.md Appendix C).
type Sig map[string]string

func (s Sig) String() string {
	keys := make([]string, 0, len(s))
	for k := range s {
		keys = append(keys, k)
	}
	sort.Strings(keys)
	parts := []string{}
	for _, k := range keys {
		parts = append(parts, k+"="+s[k])
	}
	return strings.Join(parts, ",")
}

// Finding is one line of /verif/known_findings.jsonl.
type Finding struct {
	Property string            `json:"property"`
	ID       string            `json:"id"`
	Status   string            `json:"status"` // open | fixed
	Match    map[string]string `json:"match,omitempty"`
	Witness  string            `json:"witness,omitempty"`
	What     string            `json:"what"`
	Commit   string            `json:"commit,omitempty"`
}

// Violation is what a check found.
type Violation struct {
	Sig    Sig    `json:"sig"`
	Replay string `json:"replay"`
	Msg    string `json:"msg"`
	Known  string `json:"known,omitempty"` // id of the open finding that matches
}

type Report struct {
	Property     string         `json:"property"`
	Shard        int            `json:"shard"`
	NShards      int            `json:"nshards"`
	Tier         string         `json:"tier"`
	Seed         uint64         `json:"seed"`
	Evaluations  int            `json:"evaluations"`
	Discards     map[string]int `json:"discards"`
	Classes      map[string]int `json:"classes"`
	Inconclusive map[string]int `json:"inconclusive"`
	NonTrivial   []string       `json:"nontrivial"` // 64-bit hex hashes of distinct non-trivial cases
	Samples      []any          `json:"samples"`
	Violations   []Violation    `json:"violations"`
	KnownHits    map[string]int `json:"known_hits"`
	Exhaustive   bool           `json:"exhaustive,omitempty"`
	Notes        []string       `json:"notes,omitempty"`
	HarnessError string         `json:"harness_error,omitempty"`
	Extra        map[string]any `json:"extra,omitempty"`
}

// R is the per-shard reporter.
type R struct {
	mu       sync.Mutex
	rep      Report
	nt       map[string]struct{}
	findings []Finding
	outDir   string
	replays  string
	maxSamp  int
	vioSeen  map[string]bool
}

// Env describes the shard this process is.
type Env struct {
	Property string
	Tier     string
	Shard    int
	NShards  int
	Seed     uint64
	OutDir   string
	Replays  string
	Verif    string
}

func GetEnv(property string) Env {
	e := Env{Property: property, Tier: "quick", NShards: 1, Seed: 1}
	if v := os.Getenv("VERIF_TIER"); v != "" {
		e.Tier = v
	}
	if v, err := strconv.Atoi(os.Getenv("VERIF_SHARD")); err == nil {
		e.Shard = v
	}
	if v, err := strconv.Atoi(os.Getenv("VERIF_NSHARDS")); err == nil && v > 0 {
		e.NShards = v
	}
	if v, err := strconv.ParseUint(os.Getenv("VERIF_SEED"), 10, 64); err == nil {
		e.Seed = v
	}
	e.Verif = os.Getenv("VERIF_DIR")
	if e.Verif == "" {
		e.Verif = "/verif"
	}
	e.OutDir = os.Getenv("VERIF_OUT")
	if e.OutDir == "" {
		e.OutDir = filepath.Join(os.TempDir(), "verif-out")
	}
	e.Replays = os.Getenv("VERIF_REPLAYS")
	if e.Replays == "" {
		e.Replays = filepath.Join(e.Verif, "replays", property)
	}
	return e
}

func (e Env) Thorough() bool { return e.Tier == "thorough" }

// Pick returns q for the quick tier and th for the thorough tier.
func (e Env) Pick(q, th int) int {
	if e.Thorough() {
		return th
	}
	return q
}

// Mine tells whether item i of a deterministic enumeration belongs to this shard.
func (e Env) Mine(i int) bool { return i%e.NShards == e.Shard }

func New(e Env) *R {
	r := &R{outDir: e.OutDir, replays: e.Replays, maxSamp: 6, nt: map[string]struct{}{}, vioSeen: map[string]bool{}}
	r.rep = Report{Property: e.Property, Shard: e.Shard, NShards: e.NShards, Tier: e.Tier, Seed: e.Seed,
		Discards: map[string]int{}, Classes: map[string]int{}, Inconclusive: map[string]int{}, KnownHits: map[string]int{}, Extra: map[string]any{}}
	os.MkdirAll(r.outDir, 0o755)
	os.MkdirAll(r.replays, 0o755)
	r.findings = LoadFindings(filepath.Join(e.Verif, "known_findings.jsonl"), e.Property)
	return r
}

func LoadFindings(path, property string) []Finding {
	f, err := os.Open(path)
	if err != nil {
		return nil
	}
	defer f.Close()
	out := []Finding{}
	sc := bufio.NewScanner(f)
	sc.Buffer(make([]byte, 1<<20), 1<<20)
	for sc.Scan() {
		line := strings.TrimSpace(sc.Text())
		if line == "" || strings.HasPrefix(line, "#") {
			continue
		}
		var fd Finding
		if err := json.Unmarshal([]byte(line), &fd); err != nil {
			continue
		}
		if fd.Property == property {
			out = append(out, fd)
		}
	}
	return out
}

// OpenFindings returns the open findings of this property.
func (r *R) OpenFindings() []Finding {
	out := []Finding{}
	for _, f := range r.findings {
		if f.Status == "open" {
			out = append(out, f)
		}
	}
	return out
}

func matchVal(pattern, val string) bool {
	for _, alt := range strings.Split(pattern, "|") {
		if alt == val || alt == "*" {
			return true
		}
		if strings.HasSuffix(alt, "*") && strings.HasPrefix(val, strings.TrimSuffix(alt, "*")) {
			return true
		}
	}
	return false
}

// KnownFor returns the id of the open finding whose match keys all agree with sig ("" if none).
func (r *R) KnownFor(sig Sig) string {
	for _, f := range r.findings {
		if f.Status != "open" || len(f.Match) == 0 {
			continue
		}
		ok := true
		for k, v := range f.Match {
			sv, has := sig[k]
			if !has || !matchVal(v, sv) {
				ok = false
				break
			}
		}
		if ok {
			return f.ID
		}
	}
	return ""
}

func (r *R) Eval() {
	r.mu.Lock()
	r.rep.Evaluations++
	r.mu.Unlock()
}

func (r *R) Evals(n int) {
	r.mu.Lock()
	r.rep.Evaluations += n
	r.mu.Unlock()
}

func (r *R) Discard(reason string) {
	r.mu.Lock()
	r.rep.Discards[reason]++
	r.mu.Unlock()
}

func (r *R) Inconclusive(reason string) {
	r.mu.Lock()
	r.rep.Inconclusive[reason]++
	r.mu.Unlock()
}

func (r *R) Class(names ...string) {
	r.mu.Lock()
	for _, n := range names {
		r.rep.Classes[n]++
	}
	r.mu.Unlock()
}

func (r *R) Note(format string, a ...any) {
	r.mu.Lock()
	r.rep.Notes = append(r.rep.Notes, fmt.Sprintf(format, a...))
	r.mu.Unlock()
}

func (r *R) SetExtra(k string, v any) {
	r.mu.Lock()
	r.rep.Extra[k] = v
	r.mu.Unlock()
}

func (r *R) AddExtra(k string, n int) {
	r.mu.Lock()
	cur, _ := r.rep.Extra[k].(int)
	r.rep.Extra[k] = cur + n
	r.mu.Unlock()
}

func (r *R) SetExhaustive(b bool) { r.rep.Exhaustive = b }

func Hash(parts ...string) string {
	h := sha256.New()
	for _, p := range parts {
		h.Write([]byte(p))
		h.Write([]byte{0})
	}
	return hex.EncodeToString(h.Sum(nil)[:8])
}

// NonTrivial records a distinct non-trivial case (by content hash) and keeps a few samples.
func (r *R) NonTrivial(key string, sample any) {
	h := Hash(key)
	r.mu.Lock()
	if _, ok := r.nt[h]; !ok {
		r.nt[h] = struct{}{}
		if sample != nil && len(r.rep.Samples) < r.maxSamp && (len(r.nt) == 1 || len(r.nt)%7 == 0) {
			r.rep.Samples = append(r.rep.Samples, sample)
		}
	}
	r.mu.Unlock()
}

// Sample keeps a sample unconditionally (bounded).
func (r *R) Sample(sample any) {
	r.mu.Lock()
	if len(r.rep.Samples) < r.maxSamp {
		r.rep.Samples = append(r.rep.Samples, sample)
	}
	r.mu.Unlock()
}

// WriteReplay stores a replay case and returns its path. name is unique per minimal case.
func (r *R) WriteReplay(name string, c any) string {
	p := filepath.Join(r.replays, name+".json")
	b, _ := json.MarshalIndent(c, "", " ")
	os.WriteFile(p, b, 0o644)
	return p
}

// Violate records a violation found by a deterministic enumeration (no rapid involved).
// Violations with the same signature are recorded once. Returns true if it is new and not known.
func (r *R) Violate(sig Sig, msg string, replayCase any) bool {
	key := sig.String()
	r.mu.Lock()
	seen := r.vioSeen[key]
	r.vioSeen[key] = true
	r.mu.Unlock()
	if id := r.KnownFor(sig); id != "" {
		r.mu.Lock()
		r.rep.KnownHits[id]++
		r.mu.Unlock()
		return false
	}
	if seen {
		return false
	}
	name := fmt.Sprintf("enum-%s", Hash(r.rep.Property, key))
	p := r.WriteReplay(name, replayCase)
	r.mu.Lock()
	r.rep.Violations = append(r.rep.Violations, Violation{Sig: sig, Replay: p, Msg: trunc(msg, 2000)})
	r.mu.Unlock()
	return true
}

func trunc(s string, n int) string {
	if len(s) > n {
		return s[:n] + "…"
	}
	return s
}

// pending violation of the running rapid property (the last failing evaluation is the minimal one).
type pending struct {
	v Violation
}

var (
	pendMu sync.Mutex
	pend   = map[*R]*pending{}
)

// Skipper is the part of *rapid.T the reporter needs.
type Skipper interface {
	Skip(args ...any)
	Fatalf(format string, args ...any)
}

// FailCase is called inside a rapid property when the oracle disagrees. If the signature matches
// an open known finding the case is skipped (counted); otherwise the replay is written (last
// write wins = the shrunk case) and the property fails.
func (r *R) FailCase(t Skipper, sig Sig, msg string, replayCase any) {
	if id := r.KnownFor(sig); id != "" {
		r.mu.Lock()
		r.rep.KnownHits[id]++
		r.mu.Unlock()
		t.Skip("known finding " + id)
		return
	}
	name := fmt.Sprintf("min-s%d-%d", r.rep.Seed, r.rep.Shard)
	p := r.WriteReplay(name, replayCase)
	pendMu.Lock()
	pend[r] = &pending{v: Violation{Sig: sig, Replay: p, Msg: trunc(msg, 2000)}}
	pendMu.Unlock()
	t.Fatalf("VIOLATION-CANDIDATE %s: %s", sig.String(), trunc(msg, 4000))
}

// AfterRapid must be called after rapid.Check returned: a recorded pending violation becomes final.
// If the test failed without a recorded violation the shard is marked as a harness error.
func (r *R) AfterRapid(t *testing.T, failedBefore bool) {
	pendMu.Lock()
	p := pend[r]
	delete(pend, r)
	pendMu.Unlock()
	if p != nil {
		r.mu.Lock()
		r.rep.Violations = append(r.rep.Violations, p.v)
		r.mu.Unlock()
		return
	}
	if t.Failed() && !failedBefore {
		r.mu.Lock()
		if r.rep.HarnessError == "" {
			r.rep.HarnessError = "rapid property failed without a recorded violation (generator/oracle panic?) — see shard log"
		}
		r.mu.Unlock()
	}
}

func (r *R) HarnessError(format string, a ...any) {
	r.mu.Lock()
	if r.rep.HarnessError == "" {
		r.rep.HarnessError = fmt.Sprintf(format, a...)
	}
	r.mu.Unlock()
}

// Flush writes the shard report.
func (r *R) Flush() {
	r.mu.Lock()
	defer r.mu.Unlock()
	r.rep.NonTrivial = r.rep.NonTrivial[:0]
	for h := range r.nt {
		r.rep.NonTrivial = append(r.rep.NonTrivial, h)
	}
	sort.Strings(r.rep.NonTrivial)
	b, _ := json.Marshal(r.rep)
	os.WriteFile(filepath.Join(r.outDir, fmt.Sprintf("shard-%d.json", r.rep.Shard)), b, 0o644)
}
