module verif/harness

go 1.23

toolchain go1.23.5

require (
	github.com/monstermichl/typeshell v0.0.0
	pgregory.net/rapid v1.3.0
)

replace github.com/monstermichl/typeshell => /repo
