// Package gen builds random well-typed TypeShell programs (own AST) with rapid.
// Construction over rejection: types drive expression choice, loops terminate by construction,
// divisors are non-zero by construction, indices stay in range by tracked minimum lengths.
package gen

import (
	"fmt"
	"math/bits"
	"sort"
	"strings"

	"pgregory.net/rapid"
	"verif/harness/ts"
)

type Cfg struct {
	MaxStmts   int // statement budget of the whole program
	MaxDepth   int // block nesting
	MaxFuncs   int
	ExprDepth  int
	Funcs      bool
	Slices     bool
	StrOps     bool // len / index / substring / range on strings
	Panics     bool
	Tracers    bool // effectful tracer calls at operand positions (C04)
	Wide       bool // 64-bit extreme literals
	CmdNeutral bool // string alphabet without / and =
	LoopBudget int  // bound on the product of nested loop bounds
	NoSwitch   bool
	DumpGlobal bool // print every global at the end
	// exclusion switches for open known findings (each use is counted in Tags["excluded:<id>"])
	NoCmpChain bool // a < b == c without parentheses
	BigSlices  bool // slice literals crossing the 9 -> 10 boundary
	NoMultiRet bool
	PureConds  bool // no calls under && / ||, in else-if conditions and in case expressions (Go would short-circuit them)
	IO         bool // input/read/write/exists and program calls (never executed by the harness: C16 only)
	ErrSpell   bool // string types may be spelled "error" and the empty string literal nil (README: "Error and nil")
	BareExpr   bool // a value expression on a line of its own (x, 5, "s", (x), itoa(x), x + 1): accepted by TypeShell, no effect
}

type varInfo struct {
	Name   string
	Ty     ts.Type
	Locked bool // loop counters and range variables: never assigned by generated code
	Global bool
	MinLen int // for strings and slices: a lower bound of the length that holds everywhere the variable is visible
	Block  int // id of the defining block (for := re-use)
}

type funcInfo struct {
	Name   string
	Params []ts.Param
	Rets   []ts.Type
	Tracer bool
	// MultiAssigns: the body performs a multi-assignment itself (a caller's multi-assignment that calls it has two such
	// statements in flight at once: compiler-owned temporaries must not be shared between them)
	MultiAssigns bool
	// WantCall: the function has a shape whose effect only shows when its results are used (several returned values that are
	// direct call results): the next statements prefer to call it and keep the results
	WantCall bool
}

type G struct {
	pending    []ts.Stmt // definitions to be emitted in front of the function that is being generated
	t          *rapid.T
	cfg        Cfg
	scopes     [][]*varInfo
	blockIDs   []int
	nextBlock  int
	funcs      []*funcInfo
	cur        *funcInfo
	loopDepth  int
	inSwitch   int // lexical switch depth since the innermost loop
	budget     int
	loopFactor int
	Tags       map[string]int
	tracerID   int64
	nameN      int
	pure       int // >0: no calls may be generated (switch tags, range operands)
	topLevel   bool
	pickLast   int
	localNames map[string][]string // per function: the names drawn for its parameters and locals
}

var namePool = []string{"a", "b", "c", "d", "e", "x", "y", "z", "n", "m", "s", "t", "u", "v", "w", "k", "p", "q", "r", "acc", "tmp", "cnt", "val", "res"}
var funcPool = []string{"f", "g", "h", "calc", "get", "mk", "upd", "chk", "fold", "pick", "join2", "step"}

func (g *G) tag(s string) { g.Tags[s]++ }

// Uniform draws an unbiased integer in [lo, hi] (rapid's integer generators favour small
// values, which would skew every weighted choice towards its first alternative).
func Uniform(lo, hi int) *rapid.Generator[int] {
	if hi <= lo {
		return rapid.Just(lo)
	}
	return rapid.Custom(func(t *rapid.T) int {
		n := hi - lo + 1
		if n <= 1 {
			return lo
		}
		nb := bits.Len(uint(n - 1))
		for tries := 0; tries < 64; tries++ {
			v := 0
			for i := 0; i < nb; i++ {
				if rapid.Bool().Draw(t, "b") {
					v |= 1 << i
				}
			}
			if v < n {
				return lo + v
			}
		}
		return lo
	})
}

func (g *G) intn(label string, lo, hi int) int {
	if hi <= lo {
		return lo
	}
	return Uniform(lo, hi).Draw(g.t, label)
}

func (g *G) chance(label string, percent int) bool {
	return Uniform(0, 99).Draw(g.t, label) < percent
}

// pick draws an index with the given weights.
func (g *G) pick(label string, weights ...int) (res int) {
	defer func() { g.pickLast = res }()
	total := 0
	for _, w := range weights {
		total += w
	}
	if total == 0 {
		return 0
	}
	r := Uniform(0, total-1).Draw(g.t, label)
	for i, w := range weights {
		if r < w {
			return i
		}
		r -= w
	}
	return len(weights) - 1
}

// ---------------------------------------------------------------- scopes

func (g *G) push() {
	g.scopes = append(g.scopes, nil)
	g.nextBlock++
	g.blockIDs = append(g.blockIDs, g.nextBlock)
}

func (g *G) pop() {
	g.scopes = g.scopes[:len(g.scopes)-1]
	g.blockIDs = g.blockIDs[:len(g.blockIDs)-1]
}

func (g *G) curBlock() int { return g.blockIDs[len(g.blockIDs)-1] }

func (g *G) visible(name string) *varInfo {
	for i := len(g.scopes) - 1; i >= 0; i-- {
		for _, v := range g.scopes[i] {
			if v.Name == name {
				return v
			}
		}
	}
	return nil
}

func (g *G) add(v *varInfo) *varInfo {
	v.Block = g.curBlock()
	g.scopes[len(g.scopes)-1] = append(g.scopes[len(g.scopes)-1], v)
	return v
}

func (g *G) allVars() []*varInfo {
	out := []*varInfo{}
	for _, sc := range g.scopes {
		out = append(out, sc...)
	}
	return out
}

func (g *G) varsOf(ty ts.Type, writable bool) []*varInfo {
	out := []*varInfo{}
	for _, v := range g.allVars() {
		if v.Ty == ty && (!writable || !v.Locked) {
			out = append(out, v)
		}
	}
	return out
}

func (g *G) funcNamed(n string) bool {
	for _, f := range g.funcs {
		if f.Name == n {
			return true
		}
	}
	return false
}

// freshName picks a name that is not visible here. Small pool on purpose: the same spellings
// recur as parameter of one function, local of another and later-defined global.
func (g *G) freshName() string {
	n := g.freshName1()
	if g.cur != nil {
		if g.localNames == nil {
			g.localNames = map[string][]string{}
		}
		g.localNames[g.cur.Name] = append(g.localNames[g.cur.Name], n)
	}
	return n
}

// compoundName is a legal identifier of the shape <function name>_<variable name>: the spelling a back-end could give the
// local of a function. Preferably built from a function defined so far and a name used inside it; else from the pools
// (a function of that name with such a local may follow: funcDef and the names inside it then prefer the matching parts).
func (g *G) compoundName() string {
	cands := []string{}
	for k, f := range g.funcs {
		for _, l := range g.localNames[f.Name] {
			cands = append(cands, f.Name+"_"+l, fmt.Sprintf("f%d_%s", k+1, l))
		}
	}
	if len(cands) > 0 && g.chance("compound-of-existing", 70) {
		return cands[g.intn("compound", 0, len(cands)-1)]
	}
	return funcPool[g.intn("compound-f", 0, len(funcPool)-1)] + "_" + namePool[g.intn("compound-v", 0, len(namePool)-1)]
}

// plannedSuffixes: the Y of every visible variable spelled <prefix>_Y.
func (g *G) plannedSuffixes(prefix string) []string {
	out := []string{}
	for _, sc := range g.scopes {
		for _, v := range sc {
			if strings.HasPrefix(v.Name, prefix+"_") && len(v.Name) > len(prefix)+1 {
				out = append(out, v.Name[len(prefix)+1:])
			}
		}
	}
	return out
}

func (g *G) freshName1() string {
	if g.chance("compound-name", 7) {
		if n := g.compoundName(); g.visible(n) == nil && !g.funcNamed(n) {
			g.tag("compound-name")
			return n
		}
	}
	if g.cur != nil {
		// inside a function F: a visible variable is spelled F_Y - Y is a good name for a local
		if sfx := g.plannedSuffixes(g.cur.Name); len(sfx) > 0 && g.chance("planned-suffix", 40) {
			n := sfx[g.intn("suffix", 0, len(sfx)-1)]
			if g.visible(n) == nil && !g.funcNamed(n) && n != "tcount" {
				g.tag("local-completes-compound-name")
				return n
			}
		}
	}
	for tries := 0; tries < 8; tries++ {
		n := namePool[g.intn("name", 0, len(namePool)-1)]
		if g.visible(n) == nil && !g.funcNamed(n) && n != "tcount" {
			return n
		}
	}
	for {
		g.nameN++
		n := fmt.Sprintf("v%d", g.nameN)
		if g.visible(n) == nil {
			return n
		}
	}
}

func (g *G) scalarType(label string) ts.Type {
	return []ts.Type{ts.TInt, ts.TInt, ts.TBool, ts.TString}[g.intn(label, 0, 3)]
}

func (g *G) anyType(label string) ts.Type {
	if g.cfg.Slices && g.chance(label+"-slice", 30) {
		return []ts.Type{ts.TIntS, ts.TIntS, ts.TBoolS, ts.TStringS}[g.intn(label, 0, 3)]
	}
	return g.scalarType(label)
}

// ---------------------------------------------------------------- literals

var neutralChars = []byte("abcdefghijklmnopqrstuvwxyzABCDEFGHIJKLMNOPQRSTUVWXYZ0123456789_.,:/=+@#")
var cmdNeutralChars = []byte("abcdefghijklmnopqrstuvwxyzABCDEFGHIJKLMNOPQRSTUVWXYZ0123456789_.,:+@#")

func (g *G) strValue(minLen int) string {
	n := g.intn("strlen", minLen, minLen+5)
	chars := neutralChars
	if g.cfg.CmdNeutral {
		chars = cmdNeutralChars
	}
	b := make([]byte, 0, n)
	for i := 0; i < n; i++ {
		// single inner blanks only
		if i > 0 && i < n-1 && b[len(b)-1] != ' ' && g.chance("blank", 12) {
			b = append(b, ' ')
			continue
		}
		b = append(b, chars[g.intn("ch", 0, len(chars)-1)])
	}
	s := string(b)
	if g.cfg.CmdNeutral && (s == "on" || s == "off" || s == "ON" || s == "OFF") {
		s += "x"
	}
	return s
}

func (g *G) intValue() int64 {
	switch g.pick("intkind", 70, 15, 15) {
	case 0:
		return int64(g.intn("small", -3, 12))
	case 1:
		return []int64{9, 10, 11, 99, 100, 101, 255, 1000, -10, -100}[g.intn("boundary", 0, 9)]
	default:
		if g.cfg.Wide {
			return []int64{9223372036854775807, -9223372036854775808, 2147483647, 2147483648, -2147483648, -2147483649, 4294967296, 4294967295, 9223372036854775806, -9223372036854775807}[g.intn("wide", 0, 9)]
		}
		return int64(g.intn("medium", -50, 300))
	}
}

// ---------------------------------------------------------------- expressions

func minLenOf(e ts.Expr, g *G) int {
	switch x := e.(type) {
	case ts.StrLit:
		return len(x.V)
	case ts.VarRef:
		if v := g.visible(x.Name); v != nil {
			return v.MinLen
		}
	case ts.Group:
		return minLenOf(x.E, g)
	case ts.Bin:
		if x.Ty == ts.TString {
			return minLenOf(x.L, g) + minLenOf(x.R, g)
		}
	case ts.Itoa:
		return 1
	case ts.Index:
		if x.Ty == ts.TString {
			return 1
		}
	case ts.Substr:
		lo, lok := x.Lo.(ts.IntLit)
		hi, hok := x.Hi.(ts.IntLit)
		if x.Lo == nil {
			lok = true
		}
		if (lok) && hok {
			return int(hi.V - lo.V)
		}
	case ts.SliceLit:
		return len(x.Elems)
	}
	return 0
}

func (g *G) leaf(ty ts.Type, minLen int) ts.Expr {
	vars := []*varInfo{}
	for _, v := range g.varsOf(ty, false) {
		if v.MinLen >= minLen {
			vars = append(vars, v)
		}
	}
	if len(vars) > 0 && g.chance("usevar", 65) {
		v := vars[g.intn("var", 0, len(vars)-1)]
		return ts.VarRef{Name: v.Name, Ty: v.Ty}
	}
	switch ty {
	case ts.TInt:
		v := g.intValue()
		if v >= 0 && v < 4096 && g.chance("octal-spelling", 4) {
			g.tag("octal-literal")
			return ts.IntLit{V: v, Oct: true} // 010 is 8 in Go
		}
		return ts.IntLit{V: v}
	case ts.TBool:
		return ts.BoolLit{V: g.chance("boollit", 50)}
	case ts.TString:
		return ts.StrLit{V: g.strValue(minLen)}
	}
	// slice literal
	n := g.intn("slicelen", minLen, minLen+3)
	if g.cfg.BigSlices && g.chance("bigslice", 10) {
		n = g.intn("bigslicelen", 9, 13)
		if n < minLen {
			n = minLen
		}
	}
	sl := ts.SliceLit{Elem: ty.Elem()}
	for i := 0; i < n; i++ {
		sl.Elems = append(sl.Elems, g.expr(ty.Elem(), 0))
	}
	return sl
}

func (g *G) callsReturning(ty ts.Type) []*funcInfo {
	out := []*funcInfo{}
	if g.pure > 0 {
		return out
	}
	for _, f := range g.funcs {
		if len(f.Rets) == 1 && f.Rets[0] == ty && f != g.cur && !f.Tracer {
			out = append(out, f)
		}
	}
	return out
}

func (g *G) callExpr(f *funcInfo, depth int) ts.Call {
	c := ts.Call{Name: f.Name, Rets: f.Rets}
	for _, p := range f.Params {
		c.Args = append(c.Args, g.exprMin(p.Ty, depth-1, 0))
	}
	g.tag("call")
	return c
}

func (g *G) expr(ty ts.Type, depth int) ts.Expr { return g.exprMin(ty, depth, 0) }

// nonZero returns an int expression that is never zero.
func (g *G) nonZero(depth int) ts.Expr {
	if depth <= 0 || g.chance("div-literal", 60) {
		v := g.intValue()
		if v == 0 {
			v = 7
		}
		return ts.IntLit{V: v}
	}
	// (e)*2+1 is odd under wrap-around
	return ts.Group{E: ts.Bin{Op: "+", Ty: ts.TInt, L: ts.Bin{Op: "*", Ty: ts.TInt, L: ts.Group{E: g.expr(ts.TInt, depth-1)}, R: ts.IntLit{V: 2}}, R: ts.IntLit{V: 1}}}
}

// indexInto returns an int expression that is a valid index into v (length lower bound n>0 known) or nil.
func (g *G) indexExpr(n int, depth int) ts.Expr {
	if n <= 0 {
		return nil
	}
	if depth <= 0 || g.chance("idx-literal", 55) {
		return ts.IntLit{V: int64(g.intn("idx", 0, n-1))}
	}
	// ((e % n) + n) % n
	nn := ts.IntLit{V: int64(n)}
	g.tag("computed-index")
	return ts.Bin{Op: "%", Ty: ts.TInt, L: ts.Group{E: ts.Bin{Op: "+", Ty: ts.TInt, L: ts.Bin{Op: "%", Ty: ts.TInt, L: g.operandInt(depth - 1), R: nn}, R: nn}}, R: nn}
}

// operandInt returns an int expression safe as left operand of * / % without extra parentheses concerns.
func (g *G) operandInt(depth int) ts.Expr { return g.expr(ts.TInt, depth) }

func (g *G) wrapTracer(e ts.Expr) ts.Expr {
	if !g.cfg.Tracers || g.pure > 0 || !g.chance("tracer", 35) {
		return e
	}
	var name string
	switch e.T() {
	case ts.TInt:
		name = "ti"
		if g.chance("counting-tracer", 25) {
			// value depends on how often tracers ran: a duplicated evaluation changes values, not only the trace
			g.tracerID++
			g.tag("counting-tracer")
			return ts.Bin{Op: "+", Ty: ts.TInt, L: ts.Call{Name: "tn", Args: []ts.Expr{ts.IntLit{V: g.tracerID}}, Rets: []ts.Type{ts.TInt}}, R: ts.Bin{Op: "*", Ty: ts.TInt, L: ts.IntLit{V: 0}, R: ts.Group{E: e}}}
		}
	case ts.TBool:
		name = "tb"
	case ts.TString:
		name = "ts"
	default:
		return e
	}
	g.tracerID++
	g.tag("tracer")
	return ts.Call{Name: name, Args: []ts.Expr{ts.IntLit{V: g.tracerID}, e}, Rets: []ts.Type{e.T()}}
}

func (g *G) exprMin(ty ts.Type, depth int, minLen int) ts.Expr {
	e := g.exprMin1(ty, depth, minLen)
	if !ty.IsSlice() && minLen == 0 {
		e = g.wrapTracer(e)
	}
	return e
}

func (g *G) ioExpr(ty ts.Type, depth int) ts.Expr {
	switch ty {
	case ts.TString:
		switch g.pick("io-str", 40, 30, 30) {
		case 0:
			g.tag("io-read")
			return ts.Read{P: g.expr(ts.TString, depth-1)}
		case 1:
			g.tag("io-input")
			return ts.Input{}
		default:
			g.tag("io-input-prompt")
			return ts.Input{Prompt: g.expr(ts.TString, depth-1)}
		}
	case ts.TBool:
		g.tag("io-exists")
		return ts.Exists{P: g.expr(ts.TString, depth-1)}
	}
	return nil
}

func (g *G) appCall(depth int) ts.App {
	n := g.pick("pipe-len", 60, 30, 10) + 1
	a := ts.App{}
	for i := 0; i < n; i++ {
		one := ts.AppOne{Name: []string{"ls", "grep", "sort", "cat", "echo", "tool"}[g.intn("app", 0, 5)]}
		if g.chance("app-literal", 30) {
			one.Literal = true
			one.Name = []string{"./run.sh", "bin/tool", "helper"}[g.intn("app-path", 0, 2)]
			one.Raw = g.chance("app-raw", 50)
		}
		for k := g.intn("app-nargs", 0, 3); k > 0; k-- {
			arg := g.expr(ts.TString, depth-1)
			one.Args = append(one.Args, arg)
		}
		a.Calls = append(a.Calls, one)
	}
	g.tag(fmt.Sprintf("app-pipeline-%d", n))
	return a
}

func (g *G) ioStmt() []ts.Stmt {
	depth := g.intn("io-depth", 0, 2)
	switch g.pick("io-stmt", 35, 30, 35) {
	case 0:
		w := ts.Write{P: g.expr(ts.TString, depth), D: g.expr(ts.TString, depth)}
		if g.chance("write-append", 50) {
			w.A = g.expr(ts.TBool, depth)
		}
		g.tag("io-write")
		return []ts.Stmt{w}
	case 1:
		g.tag("app-stmt")
		return []ts.Stmt{ts.ExprStmt{E: g.appCall(depth + 1)}}
	default:
		names := []string{}
		for i := 0; i < 3; i++ {
			names = append(names, g.freshNameAvoid(names))
		}
		tys := []ts.Type{ts.TString, ts.TString, ts.TInt}
		form := []int{ts.DeclShort, ts.DeclVarValue}[g.intn("capture-form", 0, 1)]
		d := ts.VarDecl{Names: names, Ty: ts.TString, Tys: tys, Vals: []ts.Expr{g.appCall(depth + 1)}, Form: form}
		for i, n := range names {
			g.defineVar(n, tys[i], 0)
		}
		g.tag("app-capture")
		return []ts.Stmt{d}
	}
}

func (g *G) exprMin1(ty ts.Type, depth int, minLen int) ts.Expr {
	if g.cfg.IO && g.pure == 0 && minLen == 0 && depth > 0 && (ty == ts.TString || ty == ts.TBool) && g.chance("io-expr", 8) {
		return g.ioExpr(ty, depth)
	}
	if depth <= 0 {
		return g.leaf(ty, minLen)
	}
	if ty.IsSlice() {
		calls := g.callsReturning(ty)
		if minLen == 0 && len(calls) > 0 && g.chance("slice-call", 25) {
			return g.callExpr(calls[g.intn("fn", 0, len(calls)-1)], depth)
		}
		return g.leaf(ty, minLen)
	}
	if minLen > 0 {
		// strings with a required minimum length: literal / variable / concatenation that keeps the bound
		if ty == ts.TString && g.chance("concat-min", 35) {
			g.tag("concat")
			return ts.Bin{Op: "+", Ty: ts.TString, L: g.exprMin(ts.TString, depth-1, minLen), R: g.expr(ts.TString, depth-1)}
		}
		return g.leaf(ty, minLen)
	}
	calls := g.callsReturning(ty)
	wCall := 0
	if len(calls) > 0 {
		wCall = 14
	}
	wGroup := 6
	switch ty {
	case ts.TInt:
		wLen, wElem, wCopy := 0, 0, 0
		seqs := g.lenTargets()
		if len(seqs) > 0 || g.cfg.StrOps || g.cfg.Slices {
			wLen = 8
		}
		elems := g.indexables(ts.TInt)
		if len(elems) > 0 {
			wElem = 10
		}
		switch g.pick("int-prod", 22, 16, 12, 8, 8, wCall, wGroup, wLen, wElem, wCopy) {
		case 0:
			return g.leaf(ty, 0)
		case 1:
			g.tag("add")
			return ts.Bin{Op: []string{"+", "-"}[g.intn("addop", 0, 1)], Ty: ts.TInt, L: g.expr(ts.TInt, depth-1), R: g.expr(ts.TInt, depth-1)}
		case 2:
			g.tag("mul")
			return ts.Bin{Op: "*", Ty: ts.TInt, L: g.expr(ts.TInt, depth-1), R: g.expr(ts.TInt, depth-1)}
		case 3:
			g.tag("div")
			return ts.Bin{Op: "/", Ty: ts.TInt, L: g.expr(ts.TInt, depth-1), R: g.nonZero(depth - 1)}
		case 4:
			g.tag("mod")
			return ts.Bin{Op: "%", Ty: ts.TInt, L: g.expr(ts.TInt, depth-1), R: g.nonZero(depth - 1)}
		case 5:
			return g.callExpr(calls[g.intn("fn", 0, len(calls)-1)], depth)
		case 6:
			g.tag("group")
			return ts.Group{E: g.expr(ty, depth-1)}
		case 7:
			g.tag("len")
			if len(seqs) == 0 || g.chance("len-of-expression", 30) {
				// len of a value that is no variable: literal, concatenation, call result
				g.tag("len-of-expression")
				if g.cfg.StrOps && (!g.cfg.Slices || g.chance("len-of-string", 60)) {
					return ts.Len{X: g.expr(ts.TString, depth-1)}
				}
				return ts.Len{X: g.expr([]ts.Type{ts.TIntS, ts.TBoolS, ts.TStringS}[g.intn("len-elem", 0, 2)], depth-1)}
			}
			v := seqs[g.intn("lenof", 0, len(seqs)-1)]
			return ts.Len{X: ts.VarRef{Name: v.Name, Ty: v.Ty}}
		case 8:
			return g.elemRead(elems, depth)
		}
	case ts.TBool:
		elems := g.indexables(ts.TBool)
		wElem := 0
		if len(elems) > 0 {
			wElem = 8
		}
		switch g.pick("bool-prod", 14, 22, 8, 6, 12, 12, 8, wCall, wGroup, wElem) {
		case 0:
			return g.leaf(ty, 0)
		case 1:
			g.tag("cmp-int")
			op := []string{"==", "!=", "<", "<=", ">", ">="}[g.intn("cmpop", 0, 5)]
			return ts.Cmp{Op: op, L: g.expr(ts.TInt, depth-1), R: g.expr(ts.TInt, depth-1)}
		case 2:
			g.tag("cmp-string")
			return ts.Cmp{Op: []string{"==", "!="}[g.intn("eqop", 0, 1)], L: g.expr(ts.TString, depth-1), R: g.expr(ts.TString, depth-1)}
		case 3:
			l := g.expr(ts.TBool, depth-1)
			r := g.expr(ts.TBool, depth-1)
			if _, isCmp := l.(ts.Cmp); isCmp {
				if g.cfg.NoCmpChain {
					g.tag("excluded:cmp-chain")
					l = ts.Group{E: l}
				} else {
					g.tag("cmp-chain")
				}
			}
			g.tag("cmp-bool")
			return ts.Cmp{Op: []string{"==", "!="}[g.intn("eqop", 0, 1)], L: l, R: r}
		case 4, 5:
			op := "&&"
			if ty == ts.TBool && g.pickLast == 5 {
				op = "||"
			}
			g.tag(map[string]string{"&&": "and", "||": "or"}[op])
			if g.cfg.PureConds {
				g.pure++
				defer func() { g.pure-- }()
			}
			return ts.Logic{Op: op, L: g.expr(ts.TBool, depth-1), R: g.expr(ts.TBool, depth-1)}
		case 6:
			g.tag("not")
			inner := g.expr(ts.TBool, depth-1)
			if _, isNot := inner.(ts.Not); isNot {
				if g.chance("double-negation-grouped", 50) {
					inner = ts.Group{E: inner} // !(!x)
				} else {
					g.tag("double-negation") // !!x
				}
			} else if g.chance("double-negation", 12) {
				g.tag("double-negation")
				return ts.Not{E: ts.Not{E: inner}}
			}
			return ts.Not{E: inner}
		case 7:
			return g.callExpr(calls[g.intn("fn", 0, len(calls)-1)], depth)
		case 8:
			g.tag("group")
			return ts.Group{E: g.expr(ty, depth-1)}
		case 9:
			return g.elemRead(elems, depth)
		}
	case ts.TString:
		elems := g.indexables(ts.TString)
		wElem, wSub := 0, 0
		if len(elems) > 0 {
			wElem = 8
		}
		subs := g.stringVars(0)
		if g.cfg.StrOps && len(subs) > 0 {
			wSub = 14
		}
		switch g.pick("str-prod", 30, 18, 10, wCall, wGroup, wElem, wSub) {
		case 0:
			return g.leaf(ty, 0)
		case 1:
			g.tag("concat")
			return ts.Bin{Op: "+", Ty: ts.TString, L: g.expr(ts.TString, depth-1), R: g.expr(ts.TString, depth-1)}
		case 2:
			g.tag("itoa")
			return ts.Itoa{X: g.expr(ts.TInt, depth-1)}
		case 3:
			return g.callExpr(calls[g.intn("fn", 0, len(calls)-1)], depth)
		case 4:
			g.tag("group")
			return ts.Group{E: g.expr(ty, depth-1)}
		case 5:
			return g.elemRead(elems, depth)
		case 6:
			return g.stringOp(subs, depth)
		}
	}
	return g.leaf(ty, 0)
}

// lenTargets: variables len() can be applied to.
func (g *G) lenTargets() []*varInfo {
	out := []*varInfo{}
	for _, v := range g.allVars() {
		if v.Ty.IsSlice() || (g.cfg.StrOps && v.Ty == ts.TString) {
			out = append(out, v)
		}
	}
	return out
}

// indexables: slice variables with element type elem and a known positive minimum length.
func (g *G) indexables(elem ts.Type) []*varInfo {
	out := []*varInfo{}
	for _, v := range g.allVars() {
		if v.Ty.IsSlice() && v.Ty.Elem() == elem && v.MinLen > 0 {
			out = append(out, v)
		}
	}
	return out
}

func (g *G) stringVars(minLen int) []*varInfo {
	out := []*varInfo{}
	for _, v := range g.allVars() {
		if v.Ty == ts.TString && v.MinLen >= minLen {
			out = append(out, v)
		}
	}
	return out
}

func (g *G) elemRead(cands []*varInfo, depth int) ts.Expr {
	v := cands[g.intn("elemof", 0, len(cands)-1)]
	g.tag("slice-read")
	return ts.Index{X: ts.VarRef{Name: v.Name, Ty: v.Ty}, I: g.indexExpr(v.MinLen, depth-1), Ty: v.Ty.Elem()}
}

func (g *G) stringOp(cands []*varInfo, depth int) ts.Expr {
	v := cands[g.intn("strof", 0, len(cands)-1)]
	ref := ts.VarRef{Name: v.Name, Ty: ts.TString}
	n := v.MinLen
	lenE := ts.Len{X: ref}
	switch g.pick("strop", 20, 25, 15, 15, 8, 17) {
	case 0:
		if n > 0 {
			g.tag("str-index")
			return ts.Index{X: ref, I: g.indexExpr(n, depth-1), Ty: ts.TString}
		}
		fallthrough
	case 1:
		lo := g.intn("lo", 0, n)
		hi := g.intn("hi", lo, n)
		g.tag("substr-ab")
		if lo == hi {
			g.tag("substr-empty")
		}
		return ts.Substr{X: ref, Lo: ts.IntLit{V: int64(lo)}, Hi: ts.IntLit{V: int64(hi)}}
	case 2:
		g.tag("substr-a")
		if g.chance("lo-len", 30) {
			return ts.Substr{X: ref, Lo: lenE}
		}
		return ts.Substr{X: ref, Lo: ts.IntLit{V: int64(g.intn("lo", 0, n))}}
	case 3:
		g.tag("substr-b")
		if g.chance("hi-len", 30) {
			return ts.Substr{X: ref, Hi: lenE}
		}
		return ts.Substr{X: ref, Hi: ts.IntLit{V: int64(g.intn("hi", 0, n))}}
	case 4:
		g.tag("substr-all")
		return ts.Substr{X: ref}
	default:
		// bounds relative to the dynamic length
		k := g.intn("k", 0, n)
		g.tag("substr-dynamic")
		return ts.Substr{X: ref, Lo: ts.Bin{Op: "-", Ty: ts.TInt, L: lenE, R: ts.IntLit{V: int64(k)}}}
	}
}

// ---------------------------------------------------------------- statements

func (g *G) condExpr() ts.Expr {
	return g.expr(ts.TBool, g.intn("cond-depth", 1, g.cfg.ExprDepth))
}

func (g *G) atGlobal() bool { return g.topLevel && g.cur == nil && len(g.scopes) == 1 }

func (g *G) defineVar(name string, ty ts.Type, minLen int) *varInfo {
	return g.add(&varInfo{Name: name, Ty: ty, MinLen: minLen, Global: g.atGlobal()})
}

// addCounter defines a locked loop counter / private sequence in the current block.
func (g *G) addCounter(name string, ty ts.Type, minLen int) *varInfo {
	return g.add(&varInfo{Name: name, Ty: ty, Locked: true, MinLen: minLen, Global: g.atGlobal()})
}

func (g *G) declStmt() []ts.Stmt {
	depth := g.intn("decl-depth", 0, g.cfg.ExprDepth)
	if g.pure == 0 && g.chance("wanted-call", 60) {
		if st := g.wantedCall(depth); st != nil {
			return st
		}
	}
	// multi-name forms
	if g.chance("multi-decl", 18) {
		return g.multiDecl(depth)
	}
	ty := g.anyType("decl-type")
	name := g.freshName()
	form := g.pick("decl-form", 15, 20, 20, 45)
	var d ts.VarDecl
	minLen := 0
	switch form {
	case ts.DeclVarType:
		d = ts.VarDecl{Names: []string{name}, Ty: ty, Form: form}
	default:
		val := g.expr(ty, depth)
		minLen = minLenOf(val, g)
		d = ts.VarDecl{Names: []string{name}, Ty: ty, Vals: []ts.Expr{val}, Form: form}
	}
	d.Tys = []ts.Type{ty}
	g.defineVar(name, ty, minLen)
	g.tag(fmt.Sprintf("decl-form-%d", form))
	return []ts.Stmt{d}
}

func (g *G) multiFuncs() []*funcInfo {
	out := []*funcInfo{}
	if g.pure > 0 {
		return out
	}
	for _, f := range g.funcs {
		if len(f.Rets) > 1 && f != g.cur {
			out = append(out, f)
		}
	}
	return out
}

// identityFunc returns (and defines on first use) the identity function of a scalar type.
func (g *G) identityFunc(ty ts.Type) *funcInfo {
	name := map[ts.Type]string{ts.TInt: "idi", ts.TBool: "idb", ts.TString: "ids"}[ty]
	for _, f := range g.funcs {
		if f.Name == name {
			return f
		}
	}
	fi := &funcInfo{Name: name, Params: []ts.Param{{Name: "idv", Ty: ty}}, Rets: []ts.Type{ty}} // a parameter name no pool contains
	g.funcs = append(g.funcs, fi)
	g.pending = append(g.pending, ts.FuncDef{Name: name, Params: fi.Params, Rets: fi.Rets, Body: []ts.Stmt{ts.Return{Vals: []ts.Expr{ts.VarRef{Name: "idv", Ty: ty}}}}})
	return fi
}

// wantedCall returns a definition x, y := f(...) for a function that asked to be called (see funcInfo.WantCall).
func (g *G) wantedCall(depth int) []ts.Stmt {
	for _, f := range g.multiFuncs() {
		if !f.WantCall {
			continue
		}
		f.WantCall = false
		names := []string{}
		for range f.Rets {
			names = append(names, g.freshNameAvoid(names))
		}
		d := ts.VarDecl{Names: names, Ty: f.Rets[0], Tys: f.Rets, Vals: []ts.Expr{g.callExpr(f, depth)}, Form: ts.DeclShort}
		for i, n := range names {
			g.defineVar(n, f.Rets[i], 0)
		}
		g.tag("multi-decl-from-call")
		g.tag("wanted-call")
		out := []ts.Stmt{d}
		// the results are printed right away (scalars) so that they are observed wherever the definition stands
		p := ts.Print{}
		for i, n := range names {
			if !f.Rets[i].IsSlice() {
				p.Args = append(p.Args, ts.VarRef{Name: n, Ty: f.Rets[i]})
			}
		}
		if len(p.Args) > 0 {
			out = append(out, p)
		}
		return out
	}
	return nil
}

func (g *G) multiDecl(depth int) []ts.Stmt {
	// old, fresh := e1, e2 with an existing variable of the SAME block (legal next to a new name): all values are
	// evaluated before anything is stored, so the new variable may receive the OLD value of the re-used one
	if g.chance("redeclare", 22) {
		olds := []*varInfo{}
		for _, w := range g.writable() {
			if w.Block == g.curBlock() && !w.Ty.IsSlice() && w.MinLen == 0 && !(w.Global && g.cur != nil) {
				olds = append(olds, w)
			}
		}
		if len(olds) > 0 {
			old := olds[g.intn("redeclared", 0, len(olds)-1)]
			fresh := g.freshName()
			var fv ts.Expr = ts.VarRef{Name: old.Name, Ty: old.Ty}
			switch g.pick("old-value-form", 40, 25, 35) {
			case 1:
				fv = ts.Group{E: fv}
			case 2:
				if old.Ty == ts.TInt {
					fv = ts.Bin{Op: "+", Ty: ts.TInt, L: fv, R: ts.IntLit{V: 0}}
				} else if old.Ty == ts.TString {
					fv = ts.Bin{Op: "+", Ty: ts.TString, L: fv, R: ts.StrLit{V: ""}}
				}
			}
			ov := g.expr(old.Ty, 1)
			d := ts.VarDecl{Names: []string{old.Name, fresh}, Ty: old.Ty, Tys: []ts.Type{old.Ty, old.Ty}, Vals: []ts.Expr{ov, fv}, Reuse: []bool{true, false}, Form: ts.DeclShort}
			if g.chance("redeclare-second", 50) {
				d = ts.VarDecl{Names: []string{fresh, old.Name}, Ty: old.Ty, Tys: []ts.Type{old.Ty, old.Ty}, Vals: []ts.Expr{fv, ov}, Reuse: []bool{false, true}, Form: ts.DeclShort}
			}
			g.defineVar(fresh, old.Ty, 0)
			g.tag("redeclare-in-multi-define")
			return []ts.Stmt{d}
		}
	}
	// n1, n2 := e, f(...) where f performs a multi-assignment (or multi-definition) itself: both statements hold values
	// in compiler-owned temporaries at the same time - at top level and, above all, inside functions
	if g.pure == 0 && g.chance("define-from-multi-assigner", 30) {
		cands := []*funcInfo{}
		for _, f := range g.funcs {
			if f.MultiAssigns && f != g.cur && !f.Tracer && len(f.Rets) == 1 && !f.Rets[0].IsSlice() {
				cands = append(cands, f)
			}
		}
		if len(cands) > 0 {
			f := cands[g.intn("dma-callee", 0, len(cands)-1)]
			t1 := g.scalarType("dma-first-type")
			n1 := g.freshName()
			n2 := g.freshNameAvoid([]string{n1})
			d := ts.VarDecl{Names: []string{n1, n2}, Ty: t1, Tys: []ts.Type{t1, f.Rets[0]}, Vals: []ts.Expr{g.expr(t1, 1), g.callExpr(f, 1)}, Form: ts.DeclShort}
			g.defineVar(n1, t1, 0)
			g.defineVar(n2, f.Rets[0], 0)
			g.tag("multi-decl")
			g.tag("multi-assign-calls-multi-assigner")
			return []ts.Stmt{d, ts.Print{Args: []ts.Expr{ts.VarRef{Name: n1, Ty: t1}, ts.VarRef{Name: n2, Ty: f.Rets[0]}}}}
		}
	}
	mf := g.multiFuncs()
	if len(mf) > 0 && g.chance("decl-from-call", 50) {
		f := mf[g.intn("mf", 0, len(mf)-1)]
		names := []string{}
		same := true
		for range f.Rets {
			names = append(names, g.freshNameAvoid(names))
		}
		for _, r := range f.Rets {
			if r != f.Rets[0] {
				same = false
			}
		}
		form := ts.DeclShort
		if same && g.chance("var-call-form", 40) {
			form = ts.DeclVarTypeValue
		} else if g.chance("var-call-form2", 25) {
			form = ts.DeclVarValue
		}
		d := ts.VarDecl{Names: names, Ty: f.Rets[0], Tys: f.Rets, Vals: []ts.Expr{g.callExpr(f, depth)}, Form: form}
		for i, n := range names {
			g.defineVar(n, f.Rets[i], 0)
		}
		g.tag("multi-decl-from-call")
		return []ts.Stmt{d}
	}
	k := g.intn("nnames", 2, 3)
	names := []string{}
	for i := 0; i < k; i++ {
		names = append(names, g.freshNameAvoid(names))
	}
	form := g.pick("mdecl-form", 20, 25, 15, 40)
	d := ts.VarDecl{Names: names, Form: form}
	switch form {
	case ts.DeclVarType, ts.DeclVarTypeValue:
		ty := g.scalarType("mdecl-type")
		d.Ty = ty
		for range names {
			d.Tys = append(d.Tys, ty)
			if form == ts.DeclVarTypeValue {
				d.Vals = append(d.Vals, g.expr(ty, depth))
			}
		}
	default:
		for range names {
			ty := g.scalarType("mdecl-type")
			d.Tys = append(d.Tys, ty)
			d.Vals = append(d.Vals, g.expr(ty, depth))
		}
		d.Ty = d.Tys[0]
	}
	for i, n := range names {
		ml := 0
		if len(d.Vals) > i {
			ml = minLenOf(d.Vals[i], g)
		}
		g.defineVar(n, d.Tys[i], ml)
	}
	g.tag("multi-decl")
	return []ts.Stmt{d}
}

func (g *G) freshNameAvoid(taken []string) string {
	for {
		n := g.freshName()
		ok := true
		for _, t := range taken {
			if t == n {
				ok = false
			}
		}
		if ok {
			return n
		}
	}
}

func (g *G) writable() []*varInfo {
	out := []*varInfo{}
	for _, v := range g.allVars() {
		if !v.Locked {
			out = append(out, v)
		}
	}
	return out
}

func (g *G) assignStmt() []ts.Stmt {
	ws := g.writable()
	if len(ws) == 0 {
		return g.declStmt()
	}
	depth := g.intn("asg-depth", 0, g.cfg.ExprDepth)
	v := ws[g.intn("target", 0, len(ws)-1)]
	if v.Global && g.cur != nil {
		g.tag("global-write-in-func")
	}
	switch g.pick("asg-kind", 40, 25, 15, 12, 8) {
	case 1:
		if v.Ty == ts.TInt {
			op := []string{"+", "-", "*", "/", "%"}[g.intn("op", 0, 4)]
			var val ts.Expr
			if op == "/" || op == "%" {
				val = g.nonZero(depth)
			} else {
				val = g.expr(ts.TInt, depth)
			}
			g.tag("op-assign")
			return []ts.Stmt{ts.OpAssign{Name: v.Name, Ty: ts.TInt, Op: op, Val: val}}
		}
		if v.Ty == ts.TString {
			g.tag("op-assign")
			return []ts.Stmt{ts.OpAssign{Name: v.Name, Ty: ts.TString, Op: "+", Val: g.expr(ts.TString, depth)}}
		}
	case 2:
		if v.Ty == ts.TInt {
			inc := g.chance("inc", 50)
			if !inc {
				g.tag("dec")
			}
			g.tag("incdec")
			return []ts.Stmt{ts.IncDec{Name: v.Name, Inc: inc}}
		}
	case 3:
		// multi assignment, swaps and permutations included
		if st := g.multiAssign(depth); st != nil {
			return st
		}
	case 4:
		mf := g.multiFuncs()
		if len(mf) > 0 {
			f := mf[g.intn("mf", 0, len(mf)-1)]
			names := []string{}
			ok := true
			for _, r := range f.Rets {
				cands := []*varInfo{}
				for _, w := range g.varsOf(r, true) {
					dup := false
					for _, n := range names {
						if n == w.Name {
							dup = true
						}
					}
					if !dup && w.MinLen == 0 {
						cands = append(cands, w)
					}
				}
				if len(cands) == 0 {
					ok = false
					break
				}
				names = append(names, cands[g.intn("mtarget", 0, len(cands)-1)].Name)
			}
			if ok {
				g.tag("multi-assign-from-call")
				return []ts.Stmt{ts.Assign{Names: names, Vals: []ts.Expr{g.callExpr(f, depth)}}}
			}
		}
	}
	g.tag("assign")
	return []ts.Stmt{ts.Assign{Names: []string{v.Name}, Vals: []ts.Expr{g.exprMin(v.Ty, depth, v.MinLen)}}}
}

func (g *G) multiAssign(depth int) []ts.Stmt {
	ws := g.writable()
	// group by type to build permutations
	byTy := map[ts.Type][]*varInfo{}
	for _, w := range ws {
		if !w.Ty.IsSlice() {
			byTy[w.Ty] = append(byTy[w.Ty], w)
		}
	}
	tys := []ts.Type{}
	for ty, l := range byTy {
		if len(l) >= 2 {
			tys = append(tys, ty)
		}
	}
	sort.Slice(tys, func(i, j int) bool { return tys[i] < tys[j] })
	// a, b = e, f(...) where f performs a multi-assignment of its own: two such statements are in flight at once
	if len(ws) >= 2 && g.chance("value-from-multi-assigner", 35) {
		type cand struct {
			w *varInfo
			f *funcInfo
		}
		cs := []cand{}
		for _, w := range ws {
			if w.Ty.IsSlice() || w.MinLen > 0 {
				continue
			}
			for _, f := range g.callsReturning(w.Ty) {
				if f.MultiAssigns {
					cs = append(cs, cand{w, f})
				}
			}
		}
		if len(cs) > 0 {
			c := cs[g.intn("ma-callee", 0, len(cs)-1)]
			others := []*varInfo{}
			for _, w := range ws {
				if w != c.w {
					others = append(others, w)
				}
			}
			o := others[g.intn("ma-other", 0, len(others)-1)]
			g.tag("multi-assign")
			g.tag("multi-assign-calls-multi-assigner")
			return []ts.Stmt{ts.Assign{Names: []string{o.Name, c.w.Name}, Vals: []ts.Expr{g.exprMin(o.Ty, 1, o.MinLen), g.callExpr(c.f, 1)}}}
		}
	}
	if len(tys) > 0 && g.chance("swap", 60) {
		ty := tys[g.intn("swapty", 0, len(tys)-1)]
		l := byTy[ty]
		k := 2
		if len(l) >= 3 && g.chance("perm3", 40) {
			k = 3
		}
		// choose k distinct variables with equal MinLen requirements (strings: MinLen must be kept)
		idx := rapid.Permutation(indices(len(l))).Draw(g.t, "perm")[:k]
		names := []string{}
		minOK := true
		m0 := l[idx[0]].MinLen
		for _, i := range idx {
			names = append(names, l[i].Name)
			if l[i].MinLen != m0 {
				minOK = false
			}
		}
		if minOK {
			vals := make([]ts.Expr, k)
			for i := range names {
				var v ts.Expr = ts.VarRef{Name: names[(i+1)%k], Ty: ty}
				// values that an implementation may pass through lazily: parenthesised variables
				switch g.pick("swap-form", 40, 40, 20) {
				case 1:
					v = ts.Group{E: v}
					g.tag("swap-grouped")
				case 2:
					v = ts.Group{E: ts.Group{E: v}}
					g.tag("swap-grouped")
				}
				vals[i] = v
			}
			g.tag("swap")
			return []ts.Stmt{ts.Assign{Names: names, Vals: vals}}
		}
	}
	// n, s = n + 1, itoa(n): the right-hand sides read the OLD values of the targets
	if ints, strs := byTy[ts.TInt], byTy[ts.TString]; len(ints) > 0 && len(strs) > 0 && g.chance("inc-and-itoa", 35) {
		n := ints[g.intn("ia-int", 0, len(ints)-1)]
		var sv *varInfo
		for _, c := range strs {
			if c.MinLen <= 1 {
				sv = c
			}
		}
		if sv != nil {
			nref := ts.VarRef{Name: n.Name, Ty: ts.TInt}
			inc := ts.Bin{Op: "+", Ty: ts.TInt, L: nref, R: ts.IntLit{V: 1}}
			var conv ts.Expr = ts.Itoa{X: nref}
			if g.chance("ia-group", 40) {
				conv = ts.Itoa{X: ts.Group{E: nref}}
			}
			g.tag("multi-assign-inc-and-itoa")
			if g.chance("ia-order", 50) {
				return []ts.Stmt{ts.Assign{Names: []string{n.Name, sv.Name}, Vals: []ts.Expr{inc, conv}}}
			}
			return []ts.Stmt{ts.Assign{Names: []string{sv.Name, n.Name}, Vals: []ts.Expr{conv, inc}}}
		}
	}
	if len(ws) < 2 {
		return nil
	}
	k := g.intn("nassign", 2, 3)
	if k > len(ws) {
		k = len(ws)
	}
	idx := rapid.Permutation(indices(len(ws))).Draw(g.t, "perm")[:k]
	a := ts.Assign{}
	for _, i := range idx {
		a.Names = append(a.Names, ws[i].Name)
		a.Vals = append(a.Vals, g.exprMin(ws[i].Ty, depth, ws[i].MinLen))
	}
	g.tag("multi-assign")
	return []ts.Stmt{a}
}

func indices(n int) []int {
	out := make([]int, n)
	for i := range out {
		out[i] = i
	}
	return out
}

func (g *G) printStmt() []ts.Stmt {
	// len(a), f(.. a ..), len(a) in ONE statement: the function may grow a (slices are references), so the second
	// length must be read again, not remembered
	if g.cfg.Slices && g.pure == 0 && g.chance("len-call-len", 25) {
		type cand struct {
			f *funcInfo
			i int
			v *varInfo
		}
		cs := []cand{}
		for _, f := range g.funcs {
			if f == g.cur || f.Tracer || len(f.Rets) > 1 {
				continue
			}
			for i, p := range f.Params {
				if !p.Ty.IsSlice() {
					continue
				}
				for _, v := range g.allVars() {
					if v.Ty == p.Ty {
						cs = append(cs, cand{f, i, v})
					}
				}
			}
		}
		if len(cs) > 0 {
			c := cs[g.intn("lcl", 0, len(cs)-1)]
			call := g.callExpr(c.f, 1)
			call.Args[c.i] = ts.VarRef{Name: c.v.Name, Ty: c.v.Ty}
			l := ts.Len{X: ts.VarRef{Name: c.v.Name, Ty: c.v.Ty}}
			g.tag("len-call-len")
			if len(c.f.Rets) == 0 || c.f.Rets[0].IsSlice() {
				return []ts.Stmt{ts.Print{Args: []ts.Expr{l}}, ts.ExprStmt{E: call}, ts.Print{Args: []ts.Expr{l}}}
			}
			return []ts.Stmt{ts.Print{Args: []ts.Expr{l, call, l}}}
		}
	}
	n := g.pick("nprint", 5, 45, 30, 15, 5)
	p := ts.Print{}
	for i := 0; i < n; i++ {
		p.Args = append(p.Args, g.expr(g.scalarType("print-type"), g.intn("print-depth", 0, g.cfg.ExprDepth)))
	}
	g.tag(fmt.Sprintf("print-%d", n))
	return []ts.Stmt{p}
}

func (g *G) setIndexStmt() []ts.Stmt {
	cands := []*varInfo{}
	for _, v := range g.allVars() {
		if v.Ty.IsSlice() && !v.Locked {
			cands = append(cands, v)
		}
	}
	if len(cands) == 0 {
		return g.declStmt()
	}
	v := cands[g.intn("slice", 0, len(cands)-1)]
	depth := g.intn("si-depth", 0, g.cfg.ExprDepth)
	var idx ts.Expr
	others := []*varInfo{}
	for _, o := range g.lenTargets() {
		if o.Name != v.Name {
			others = append(others, o)
		}
	}
	wOther := 0
	if len(others) > 0 {
		wOther = 14
	}
	switch g.pick("si-kind", 45, 20, 20, 15, wOther) {
	case 4:
		// the length of ANOTHER slice or string as index (shorter, equal or longer than this slice)
		o := others[g.intn("other", 0, len(others)-1)]
		idx = ts.Len{X: ts.VarRef{Name: o.Name, Ty: o.Ty}}
		g.tag("index-len-of-other")
	case 0:
		idx = ts.IntLit{V: int64(g.intn("idx", 0, v.MinLen+2))}
	case 1:
		// append position: len(s)
		idx = ts.Len{X: ts.VarRef{Name: v.Name, Ty: v.Ty}}
		g.tag("append-at-len")
	case 2:
		// gap >= 2 past the end
		idx = ts.Bin{Op: "+", Ty: ts.TInt, L: ts.Len{X: ts.VarRef{Name: v.Name, Ty: v.Ty}}, R: ts.IntLit{V: int64(g.intn("gap", 1, 3))}}
		g.tag("grow-gap")
	default:
		idx = g.indexExpr(v.MinLen+2, depth)
	}
	g.tag("slice-write")
	return []ts.Stmt{ts.SetIndex{Name: v.Name, Elem: v.Ty.Elem(), I: idx, Val: g.expr(v.Ty.Elem(), depth)}}
}

func (g *G) block(depth int, n int) []ts.Stmt {
	g.push()
	defer g.pop()
	wasTop := g.topLevel
	g.topLevel = false
	defer func() { g.topLevel = wasTop }()
	out := []ts.Stmt{}
	for i := 0; i < n && g.budget > 0; i++ {
		out = append(out, g.stmt(depth)...)
	}
	return out
}

func (g *G) bodyLen() int { return g.pick("body-len", 8, 40, 32, 14, 6) }

func (g *G) ifStmt(depth int) []ts.Stmt {
	s := ts.If{Cond: g.condExpr()}
	s.Then = g.block(depth+1, g.bodyLen())
	ne := g.pick("nelif", 55, 25, 12, 8)
	for i := 0; i < ne; i++ {
		if g.cfg.PureConds {
			g.pure++
		}
		c := g.condExpr()
		if g.cfg.PureConds {
			g.pure--
		}
		s.Elifs = append(s.Elifs, ts.ElseIf{Cond: c, Body: g.block(depth+1, g.bodyLen())})
	}
	if ne > 0 {
		g.tag("elif")
	}
	if g.chance("else", 45) {
		s.Else = g.block(depth+1, g.bodyLen())
		s.HasElse = len(s.Else) > 0
	}
	g.tag("if")
	return []ts.Stmt{s}
}

func (g *G) switchStmt(depth int) []ts.Stmt {
	s := ts.Switch{}
	form := g.pick("switch-form", 45, 25, 30)
	var tagTy ts.Type = ts.TBool
	g.pure++
	switch form {
	case 0:
		tagTy = g.scalarType("tag-type")
		s.Tag = g.expr(tagTy, g.intn("tag-depth", 0, 2))
	case 1:
		s.Tag = ts.BoolLit{V: true}
	}
	g.pure--
	nc := g.pick("ncases", 12, 30, 30, 18, 10)
	defPos := -1
	if g.chance("has-default", 60) || nc == 0 {
		defPos = g.intn("default-pos", 0, nc)
	}
	g.inSwitch++
	for i := 0; i <= nc; i++ {
		if i == defPos {
			s.Cases = append(s.Cases, ts.Case{Default: true, Body: g.block(depth+1, g.bodyLen())})
		}
		if i < nc {
			if g.cfg.PureConds {
				g.pure++
			}
			ce := g.expr(tagTy, g.intn("case-depth", 0, 2))
			if g.cfg.PureConds {
				g.pure--
			}
			s.Cases = append(s.Cases, ts.Case{E: ce, Body: g.block(depth+1, g.bodyLen())})
		}
	}
	g.inSwitch--
	switch {
	case nc == 0:
		g.tag("switch-default-only")
	case defPos == 0:
		g.tag("switch-default-first")
	}
	g.tag(fmt.Sprintf("switch-form-%d", form))
	return []ts.Stmt{s}
}

// loopStmt builds a terminating loop: a dedicated, locked counter with a literal bound.
func (g *G) loopStmt(depth int) []ts.Stmt {
	maxBound := g.cfg.LoopBudget / g.loopFactor
	if maxBound < 1 {
		return g.printStmt()
	}
	if maxBound > 5 {
		maxBound = 5
	}
	bound := g.intn("loop-bound", 1, maxBound)
	if g.loopDepth > 0 {
		g.tag("nested-loop")
	}
	saveFactor := g.loopFactor
	g.loopFactor *= bound
	saveSwitch := g.inSwitch
	g.inSwitch = 0
	g.loopDepth++
	defer func() { g.loopDepth--; g.loopFactor = saveFactor; g.inSwitch = saveSwitch }()

	wRange := 0
	if g.cfg.Slices || g.cfg.StrOps {
		wRange = 22
	}
	kind := g.pick("loop-kind", 30, 18, 14, 14, wRange)
	out := []ts.Stmt{}
	mkBody := func(pre []ts.Stmt) []ts.Stmt {
		g.push()
		defer g.pop()
		wasTop := g.topLevel
		g.topLevel = false
		defer func() { g.topLevel = wasTop }()
		body := append([]ts.Stmt{}, pre...)
		n := g.bodyLen()
		for i := 0; i < n && g.budget > 0; i++ {
			body = append(body, g.stmt(depth+1)...)
		}
		return body
	}
	cmpOps := func(c string, b int) ts.Expr {
		ref := ts.VarRef{Name: c, Ty: ts.TInt}
		switch g.pick("bound-form", 50, 25, 25) {
		case 0:
			return ts.Cmp{Op: "<", L: ref, R: ts.IntLit{V: int64(b)}}
		case 1:
			return ts.Cmp{Op: "<=", L: ref, R: ts.IntLit{V: int64(b - 1)}}
		default:
			return ts.Cmp{Op: "!=", L: ref, R: ts.IntLit{V: int64(b)}}
		}
	}
	incStmt := func(c string) ts.Stmt {
		switch g.pick("inc-form", 50, 25, 25) {
		case 0:
			return ts.IncDec{Name: c, Inc: true}
		case 1:
			return ts.OpAssign{Name: c, Ty: ts.TInt, Op: "+", Val: ts.IntLit{V: 1}}
		default:
			return ts.Assign{Names: []string{c}, Vals: []ts.Expr{ts.Bin{Op: "+", Ty: ts.TInt, L: ts.VarRef{Name: c, Ty: ts.TInt}, R: ts.IntLit{V: 1}}}}
		}
	}
	switch kind {
	case 0: // for i := 0; i < K; i++   (also counting down with --)
		g.push()
		c := g.freshName()
		g.add(&varInfo{Name: c, Ty: ts.TInt, Locked: true})
		f := ts.For{Kind: ts.ForClause}
		if g.chance("count-down", 25) {
			g.tag("count-down-loop")
			g.tag("dec")
			f.Init = ts.VarDecl{Names: []string{c}, Ty: ts.TInt, Tys: []ts.Type{ts.TInt}, Vals: []ts.Expr{ts.IntLit{V: int64(bound)}}, Form: ts.DeclShort}
			f.Cond = ts.Cmp{Op: ">", L: ts.VarRef{Name: c, Ty: ts.TInt}, R: ts.IntLit{V: 0}}
			f.Post = ts.IncDec{Name: c, Inc: false}
		} else {
			f.Init = ts.VarDecl{Names: []string{c}, Ty: ts.TInt, Tys: []ts.Type{ts.TInt}, Vals: []ts.Expr{ts.IntLit{V: 0}}, Form: ts.DeclShort}
			f.Cond = cmpOps(c, bound)
			f.Post = incStmt(c)
		}
		f.Body = mkBody(nil)
		g.pop()
		g.tag("for-clause")
		out = append(out, f)
	case 1: // c := 0; for c < K { c++ ; body }
		c := g.freshName()
		out = append(out, ts.VarDecl{Names: []string{c}, Ty: ts.TInt, Tys: []ts.Type{ts.TInt}, Vals: []ts.Expr{ts.IntLit{V: 0}}, Form: ts.DeclShort})
		g.addCounter(c, ts.TInt, 0)
		f := ts.For{Kind: ts.ForCond, Cond: cmpOps(c, bound)}
		f.Body = mkBody([]ts.Stmt{incStmt(c)})
		g.tag("for-cond")
		if g.loopDepth > 1 {
			g.tag("inner-loop-without-post")
		}
		out = append(out, f)
	case 2: // c := 0; for { c++; if c > K { break }; body }
		c := g.freshName()
		out = append(out, ts.VarDecl{Names: []string{c}, Ty: ts.TInt, Tys: []ts.Type{ts.TInt}, Vals: []ts.Expr{ts.IntLit{V: 0}}, Form: ts.DeclShort})
		g.addCounter(c, ts.TInt, 0)
		kindF := ts.ForEver
		if g.chance("for-;;", 30) {
			kindF = ts.ForClause
			g.tag("for-empty-clauses")
		}
		f := ts.For{Kind: kindF}
		guard := ts.If{Cond: ts.Cmp{Op: ">", L: ts.VarRef{Name: c, Ty: ts.TInt}, R: ts.IntLit{V: int64(bound)}}, Then: []ts.Stmt{ts.Break{}}}
		f.Body = mkBody([]ts.Stmt{incStmt(c), guard})
		g.tag("for-ever")
		if g.loopDepth > 1 {
			g.tag("inner-loop-without-post")
		}
		out = append(out, f)
	case 3: // partial clauses: "for ; c < K; c++", "for c := 0; c < K; { c++ ...}"
		c := g.freshName()
		if g.chance("no-init", 50) {
			out = append(out, ts.VarDecl{Names: []string{c}, Ty: ts.TInt, Tys: []ts.Type{ts.TInt}, Vals: []ts.Expr{ts.IntLit{V: 0}}, Form: ts.DeclShort})
			g.addCounter(c, ts.TInt, 0)
			f := ts.For{Kind: ts.ForClause, Cond: cmpOps(c, bound), Post: incStmt(c)}
			f.Body = mkBody(nil)
			g.tag("for-no-init")
			out = append(out, f)
		} else {
			g.push()
			g.add(&varInfo{Name: c, Ty: ts.TInt, Locked: true})
			f := ts.For{Kind: ts.ForClause, Cond: cmpOps(c, bound)}
			f.Init = ts.VarDecl{Names: []string{c}, Ty: ts.TInt, Tys: []ts.Type{ts.TInt}, Vals: []ts.Expr{ts.IntLit{V: 0}}, Form: ts.DeclShort}
			f.Body = mkBody([]ts.Stmt{incStmt(c)})
			g.pop()
			g.tag("for-no-post")
			if g.loopDepth > 1 {
				g.tag("inner-loop-without-post")
			}
			out = append(out, f)
		}
	default: // range over a slice or string (operand pure and not resized in the body: made fresh and locked)
		seqTy := ts.TString
		if g.cfg.Slices && (!g.cfg.StrOps || g.chance("range-slice", 65)) {
			seqTy = []ts.Type{ts.TIntS, ts.TBoolS, ts.TStringS}[g.intn("range-elem", 0, 2)]
		}
		// iterate over a private copy so the body cannot resize it
		name := g.freshName()
		var init ts.Expr
		if seqTy == ts.TString {
			init = ts.StrLit{V: g.strValue(0)}
			if len(init.(ts.StrLit).V) > bound {
				init = ts.StrLit{V: init.(ts.StrLit).V[:bound]}
			}
		} else {
			sl := ts.SliceLit{Elem: seqTy.Elem()}
			g.pure++ // no calls: the literal may itself become the range operand
			for i := 0; i < bound; i++ {
				sl.Elems = append(sl.Elems, g.expr(seqTy.Elem(), 1))
			}
			g.pure--
			init = sl
		}
		var operand ts.Expr = ts.VarRef{Name: name, Ty: seqTy}
		if g.chance("range-over-expression", 30) {
			// the operand is a value that is no variable (the number of its evaluations is unspecified: it is pure)
			g.tag("range-over-expression")
			operand = init
			if sl, ok := init.(ts.StrLit); ok && len(sl.V) >= 2 && g.chance("range-over-concat", 50) {
				k := g.intn("concat-split", 1, len(sl.V)-1)
				operand = ts.Bin{Op: "+", Ty: ts.TString, L: ts.StrLit{V: sl.V[:k]}, R: ts.StrLit{V: sl.V[k:]}}
			}
		} else {
			out = append(out, ts.VarDecl{Names: []string{name}, Ty: seqTy, Tys: []ts.Type{seqTy}, Vals: []ts.Expr{init}, Form: ts.DeclShort})
			g.addCounter(name, seqTy, minLenOf(init, g))
		}
		g.push()
		iv := g.freshName()
		g.add(&varInfo{Name: iv, Ty: ts.TInt, Locked: true})
		r := ts.Range{I: iv, X: operand}
		if g.chance("range-value", 70) {
			vv := g.freshName()
			g.add(&varInfo{Name: vv, Ty: seqTy.Elem(), Locked: true})
			if seqTy == ts.TString {
				g.visible(vv).Ty = ts.TString
				g.visible(vv).MinLen = 1
			}
			r.V = vv
		}
		r.Body = mkBody(nil)
		g.pop()
		g.tag("range")
		// the locked sequence may not be written by SetIndex either: remove write access by marking MinLen only
		out = append(out, r)
	}
	g.tag("loop")
	return out
}

func (g *G) jumpStmt() []ts.Stmt {
	// break / continue under a condition, optionally inside an else-if chain
	var j ts.Stmt = ts.Continue{}
	if g.inSwitch == 0 && g.chance("break", 50) {
		j = ts.Break{}
		g.tag("break")
	} else {
		g.tag("continue")
	}
	s := ts.If{Cond: g.condExpr()}
	if g.chance("jump-in-elif", 35) {
		s.Then = g.block(g.cfg.MaxDepth, 1)
		if g.cfg.PureConds {
			g.pure++
		}
		ec := g.condExpr()
		if g.cfg.PureConds {
			g.pure--
		}
		s.Elifs = []ts.ElseIf{{Cond: ec, Body: []ts.Stmt{j}}}
		g.tag("jump-under-elif")
		if g.loopDepth > 1 {
			g.tag("jump-under-elif-in-nested-loop")
		}
	} else {
		s.Then = []ts.Stmt{j}
	}
	return []ts.Stmt{s}
}

func (g *G) callStmt() []ts.Stmt {
	if g.pure > 0 {
		return g.printStmt()
	}
	cands := []*funcInfo{}
	for _, f := range g.funcs {
		if f != g.cur && !f.Tracer {
			cands = append(cands, f)
		}
	}
	if len(cands) == 0 {
		return g.printStmt()
	}
	f := cands[g.intn("callee", 0, len(cands)-1)]
	g.tag("call-stmt")
	return []ts.Stmt{ts.ExprStmt{E: g.callExpr(f, g.intn("call-depth", 1, g.cfg.ExprDepth))}}
}

func (g *G) returnStmt() []ts.Stmt {
	// early return under a condition
	r := ts.Return{}
	for _, rt := range g.cur.Rets {
		r.Vals = append(r.Vals, g.expr(rt, g.intn("ret-depth", 0, g.cfg.ExprDepth)))
	}
	g.tag("early-return")
	return []ts.Stmt{ts.If{Cond: g.condExpr(), Then: []ts.Stmt{r}}}
}

func (g *G) copyStmt() []ts.Stmt {
	// copy(dst, src) with len(dst) <= len(src) guaranteed: dst is a fresh empty/short slice or src itself
	srcs := []*varInfo{}
	for _, v := range g.allVars() {
		if v.Ty.IsSlice() {
			srcs = append(srcs, v)
		}
	}
	if len(srcs) == 0 {
		return g.declStmt()
	}
	src := srcs[g.intn("copy-src", 0, len(srcs)-1)]
	dst := g.freshName()
	n := g.intn("dst-len", 0, src.MinLen)
	sl := ts.SliceLit{Elem: src.Ty.Elem()}
	for i := 0; i < n; i++ {
		sl.Elems = append(sl.Elems, g.expr(src.Ty.Elem(), 0))
	}
	out := []ts.Stmt{}
	dstRef := ts.VarRef{Name: dst, Ty: src.Ty}
	if g.chance("copy-self", 12) {
		dstRef = ts.VarRef{Name: src.Name, Ty: src.Ty}
		g.tag("copy-self")
	} else {
		if n == 0 && g.chance("dst-var-decl", 40) {
			out = append(out, ts.VarDecl{Names: []string{dst}, Ty: src.Ty, Tys: []ts.Type{src.Ty}, Form: ts.DeclVarType})
		} else {
			out = append(out, ts.VarDecl{Names: []string{dst}, Ty: src.Ty, Tys: []ts.Type{src.Ty}, Vals: []ts.Expr{sl}, Form: ts.DeclShort})
		}
		g.defineVar(dst, src.Ty, src.MinLen)
	}
	cp := ts.Copy{Dst: dstRef, Src: ts.VarRef{Name: src.Name, Ty: src.Ty}}
	if dstRef.Name != src.Name && g.chance("copy-from-expression", 30) {
		// the source is a value that is no variable: a literal at least as long as dst, or (dst empty) a call result
		g.tag("copy-from-expression")
		calls := g.callsReturning(src.Ty)
		if n == 0 && len(calls) > 0 && g.chance("copy-from-call", 50) {
			cp.Src = g.callExpr(calls[g.intn("fn", 0, len(calls)-1)], 1)
			g.visible(dst).MinLen = 0
		} else {
			lit := ts.SliceLit{Elem: src.Ty.Elem()}
			k := g.intn("src-len", n, n+3)
			for i := 0; i < k; i++ {
				lit.Elems = append(lit.Elems, g.expr(src.Ty.Elem(), 1))
			}
			cp.Src = lit
			g.visible(dst).MinLen = k
		}
	}
	g.tag("copy")
	lens := g.lenTargets()
	if len(lens) > 0 && g.chance("copy-then-len", 30) {
		// the count next to another length in one statement: the result of copy must not live in a shared register
		o := lens[g.intn("copy-len-of", 0, len(lens)-1)]
		l := ts.Len{X: ts.VarRef{Name: o.Name, Ty: o.Ty}}
		g.tag("copy-with-len-in-one-statement")
		if g.chance("copy-len-print", 50) {
			out = append(out, ts.Print{Args: []ts.Expr{cp, l}})
		} else {
			out = append(out, ts.Print{Args: []ts.Expr{ts.Bin{Op: "+", Ty: ts.TInt, L: ts.Bin{Op: "*", Ty: ts.TInt, L: cp, R: ts.IntLit{V: 100}}, R: l}}})
		}
	} else if g.chance("copy-bare", 25) {
		out = append(out, ts.ExprStmt{E: cp})
		g.tag("copy-as-statement")
	} else if g.chance("copy-print", 50) {
		out = append(out, ts.Print{Args: []ts.Expr{cp}})
	} else {
		cn := g.freshName()
		out = append(out, ts.VarDecl{Names: []string{cn}, Ty: ts.TInt, Tys: []ts.Type{ts.TInt}, Vals: []ts.Expr{cp}, Form: ts.DeclShort})
		g.defineVar(cn, ts.TInt, 0)
	}
	return out
}

func (g *G) dumpSlice(v *varInfo) []ts.Stmt {
	ref := ts.VarRef{Name: v.Name, Ty: v.Ty}
	out := []ts.Stmt{ts.Print{Args: []ts.Expr{ts.StrLit{V: v.Name + ":len"}, ts.Len{X: ref}}}}
	g.push()
	iv := g.freshName()
	g.add(&varInfo{Name: iv, Ty: ts.TInt, Locked: true})
	ir := ts.VarRef{Name: iv, Ty: ts.TInt}
	f := ts.For{Kind: ts.ForClause,
		Init: ts.VarDecl{Names: []string{iv}, Ty: ts.TInt, Tys: []ts.Type{ts.TInt}, Vals: []ts.Expr{ts.IntLit{V: 0}}, Form: ts.DeclShort},
		Cond: ts.Cmp{Op: "<", L: ir, R: ts.Len{X: ref}}, Post: ts.IncDec{Name: iv, Inc: true},
		Body: []ts.Stmt{ts.Print{Args: []ts.Expr{ir, ts.Index{X: ref, I: ir, Ty: v.Ty.Elem()}}}}}
	g.pop()
	return append(out, f)
}

func (g *G) stmt(depth int) []ts.Stmt {
	g.budget--
	canNest := depth < g.cfg.MaxDepth && g.budget > 2
	wIf, wSwitch, wLoop := 0, 0, 0
	if canNest {
		wIf, wSwitch, wLoop = 14, 7, 12
		if g.cfg.NoSwitch {
			wSwitch = 0
		}
	}
	wJump := 0
	if g.loopDepth > 0 {
		wJump = 8
	}
	wCall, wRet := 0, 0
	if len(g.funcs) > 0 {
		wCall = 8
	}
	if g.cur != nil && len(g.cur.Rets) > 0 && depth > 0 {
		wRet = 4
	}
	wPanic := 0
	if g.cfg.Panics && depth > 0 {
		wPanic = 1
	}
	wSet, wCopy, wDump := 0, 0, 0
	if g.cfg.Slices {
		wSet, wCopy, wDump = 12, 4, 5
	}
	wIO := 0
	if g.cfg.IO {
		wIO = 12
	}
	wBare := 0
	if g.cfg.BareExpr {
		wBare = 4
	}
	switch g.pick("stmt", 18, 18, 16, wIf, wSwitch, wLoop, wJump, wCall, wRet, wPanic, wSet, wCopy, wDump, wIO, wBare) {
	case 14:
		g.tag("bare-expression")
		ty := g.scalarType("bare-type")
		var e ts.Expr
		switch g.pick("bare-form", 35, 20, 15, 30) {
		case 0:
			e = g.leaf(ty, 0)
		case 1:
			e = ts.Group{E: g.leaf(ty, 0)}
		case 2:
			e = ts.Itoa{X: g.leaf(ts.TInt, 0)}
		default:
			e = ts.Group{E: g.expr(ty, 1)} // grouped: a line starting with name[ is read as an element assignment
		}
		if _, isIdx := e.(ts.Index); isIdx {
			e = ts.Group{E: e}
		}
		return []ts.Stmt{ts.ExprStmt{E: e}}
	case 0:
		return g.declStmt()
	case 1:
		return g.assignStmt()
	case 2:
		return g.printStmt()
	case 3:
		return g.ifStmt(depth)
	case 4:
		return g.switchStmt(depth)
	case 5:
		return g.loopStmt(depth)
	case 6:
		return g.jumpStmt()
	case 7:
		return g.callStmt()
	case 8:
		return g.returnStmt()
	case 9:
		g.tag("panic")
		return []ts.Stmt{ts.If{Cond: g.condExpr(), Then: []ts.Stmt{ts.Panic{E: g.expr(ts.TString, 1)}}}}
	case 10:
		return g.setIndexStmt()
	case 11:
		return g.copyStmt()
	case 13:
		return g.ioStmt()
	default:
		cands := []*varInfo{}
		for _, v := range g.allVars() {
			if v.Ty.IsSlice() {
				cands = append(cands, v)
			}
		}
		if len(cands) == 0 {
			return g.printStmt()
		}
		return g.dumpSlice(cands[g.intn("dump", 0, len(cands)-1)])
	}
}

// ---------------------------------------------------------------- functions

func (g *G) funcDef() ts.Stmt {
	name := ""
	for tries := 0; ; tries++ {
		name = funcPool[g.intn("fname", 0, len(funcPool)-1)]
		if tries == 0 {
			// a visible variable spelled X_Y with X a possible function name: X is a good name for this function
			planned := []string{}
			for _, x := range funcPool {
				if len(g.plannedSuffixes(x)) > 0 && !g.funcNamed(x) {
					planned = append(planned, x)
				}
			}
			if len(planned) > 0 && g.chance("planned-function-name", 60) {
				name = planned[g.intn("planned-fname", 0, len(planned)-1)]
			}
		}
		if tries > 6 {
			g.nameN++
			name = fmt.Sprintf("fn%d", g.nameN)
		}
		if !g.funcNamed(name) && g.visible(name) == nil {
			break
		}
	}
	fi := &funcInfo{Name: name}
	// the body sees only the globals defined so far
	saved := g.scopes
	savedIDs := g.blockIDs
	globals := []*varInfo{}
	for _, v := range g.scopes[0] {
		if v.Global {
			globals = append(globals, v)
		}
	}
	g.scopes = [][]*varInfo{globals}
	g.blockIDs = []int{0}
	g.push()
	np := g.pick("nparams", 25, 30, 25, 15, 5)
	if g.chance("many-params", 4) {
		np = g.intn("nparams-many", 10, 12) // two-digit positional parameters
		g.tag("ten-or-more-params")
	}
	for i := 0; i < np; i++ {
		pn := g.freshName()
		pt := g.anyType("param-type")
		fi.Params = append(fi.Params, ts.Param{Name: pn, Ty: pt})
		g.add(&varInfo{Name: pn, Ty: pt})
	}
	nr := g.pick("nrets", 25, 45, 20, 10)
	if g.cfg.NoMultiRet && nr > 1 {
		nr = 1
	}
	for i := 0; i < nr; i++ {
		fi.Rets = append(fi.Rets, g.anyType("ret-type"))
	}
	g.cur = fi
	wasTop := g.topLevel
	g.topLevel = false
	saveLoop, saveFactor, saveSwitch := g.loopDepth, g.loopFactor, g.inSwitch
	g.loopDepth, g.inSwitch = 0, 0
	// a function may be called from inside a loop: keep half of the loop budget for its own loops
	g.loopFactor = 2
	body := []ts.Stmt{}
	// a function that receives a slice often appends to it: the caller sees the growth (slices are references)
	for _, pa := range fi.Params {
		if pa.Ty.IsSlice() && g.chance("append-to-parameter", 35) {
			ref := ts.VarRef{Name: pa.Name, Ty: pa.Ty}
			body = append(body, ts.SetIndex{Name: pa.Name, Elem: pa.Ty.Elem(), I: ts.Len{X: ref}, Val: g.expr(pa.Ty.Elem(), 1)})
			g.tag("append-to-parameter")
			break
		}
	}
	n := g.intn("fbody", 1, 5)
	maBefore := g.Tags["multi-assign"] + g.Tags["swap"] + g.Tags["multi-assign-inc-and-itoa"] + g.Tags["multi-decl"]
	for i := 0; i < n && g.budget > 0; i++ {
		body = append(body, g.stmt(1)...)
	}
	if g.chance("body-multi-assign", 25) {
		if st := g.multiAssign(1); st != nil {
			body = append(body, st...)
		}
	}
	fi.MultiAssigns = g.Tags["multi-assign"]+g.Tags["swap"]+g.Tags["multi-assign-inc-and-itoa"]+g.Tags["multi-decl"] > maBefore
	if nr > 0 {
		r := ts.Return{}
		// several returned values that are DIRECTLY call results (return high(n), low(n)): every result must be saved
		// before the next call overwrites the return registers
		direct := nr > 1 && g.chance("return-direct-calls", 55)
		for ri, rt := range fi.Rets {
			if direct && !rt.IsSlice() && g.chance("return-identity-call", 60) {
				// identity functions make the returned call results differ from each other (id(3), id(4)), so a
				// result that is overwritten by a later call shows
				id := g.identityFunc(rt)
				var arg ts.Expr
				switch rt {
				case ts.TInt:
					arg = ts.IntLit{V: int64(10*(ri+1) + g.intn("id-arg", 0, 9))}
				case ts.TBool:
					arg = ts.BoolLit{V: ri%2 == 0}
				default:
					arg = ts.StrLit{V: fmt.Sprintf("r%d", ri)}
				}
				r.Vals = append(r.Vals, ts.Call{Name: id.Name, Args: []ts.Expr{arg}, Rets: id.Rets})
				g.tag("return-of-direct-calls")
				fi.WantCall = true
				continue
			}
			if direct {
				if cs := g.callsReturning(rt); len(cs) > 0 {
					r.Vals = append(r.Vals, g.callExpr(cs[g.intn("fn", 0, len(cs)-1)], 1))
					g.tag("return-of-direct-calls")
					fi.WantCall = true
					continue
				}
				// no function of that type: a later value still CONTAINS a call where one of a convertible type exists
				if ri > 0 && rt == ts.TString {
					if cs := g.callsReturning(ts.TInt); len(cs) > 0 {
						r.Vals = append(r.Vals, ts.Itoa{X: g.callExpr(cs[g.intn("fn", 0, len(cs)-1)], 1)})
						continue
					}
				}
				if ri > 0 && rt == ts.TBool {
					if cs := g.callsReturning(ts.TInt); len(cs) > 0 {
						r.Vals = append(r.Vals, ts.Cmp{Op: ">", L: g.callExpr(cs[g.intn("fn", 0, len(cs)-1)], 1), R: ts.IntLit{V: 0}})
						continue
					}
				}
			}
			r.Vals = append(r.Vals, g.expr(rt, g.intn("ret-depth", 0, g.cfg.ExprDepth)))
		}
		body = append(body, r)
	}
	g.loopDepth, g.loopFactor, g.inSwitch = saveLoop, saveFactor, saveSwitch
	g.topLevel = wasTop
	g.cur = nil
	g.pop()
	g.scopes = saved
	g.blockIDs = savedIDs
	g.funcs = append(g.funcs, fi)
	g.tag("func")
	if nr > 1 {
		g.tag("multi-return-func")
	}
	return ts.FuncDef{Name: name, Params: fi.Params, Rets: fi.Rets, Body: body, NoParens: np == 0 && nr <= 1 && g.chance("noparens", 30)}
}

// TracerPrelude returns the effectful helper functions of the C04 profile.
func TracerPrelude() []ts.Stmt {
	n := ts.VarRef{Name: "n", Ty: ts.TInt}
	tr := func(name string, ty ts.Type) ts.Stmt {
		return ts.FuncDef{Name: name, Params: []ts.Param{{Name: "n", Ty: ts.TInt}, {Name: "v", Ty: ty}}, Rets: []ts.Type{ty},
			Body: []ts.Stmt{ts.Print{Args: []ts.Expr{ts.StrLit{V: "t"}, n}}, ts.Return{Vals: []ts.Expr{ts.VarRef{Name: "v", Ty: ty}}}}}
	}
	return []ts.Stmt{
		ts.VarDecl{Names: []string{"tcount"}, Ty: ts.TInt, Tys: []ts.Type{ts.TInt}, Vals: []ts.Expr{ts.IntLit{V: 0}}, Form: ts.DeclShort},
		tr("ti", ts.TInt), tr("tb", ts.TBool), tr("ts", ts.TString),
		ts.FuncDef{Name: "tn", Params: []ts.Param{{Name: "n", Ty: ts.TInt}}, Rets: []ts.Type{ts.TInt},
			Body: []ts.Stmt{ts.IncDec{Name: "tcount", Inc: true}, ts.Print{Args: []ts.Expr{ts.StrLit{V: "t"}, n, ts.VarRef{Name: "tcount", Ty: ts.TInt}}}, ts.Return{Vals: []ts.Expr{ts.VarRef{Name: "tcount", Ty: ts.TInt}}}}},
	}
}

// Program generates a single-file program.
func Program(t *rapid.T, cfg Cfg) (*ts.Program, map[string]int) {
	stmts, tags := Stmts(t, cfg)
	return ts.Single(stmts), tags
}

func Stmts(t *rapid.T, cfg Cfg) ([]ts.Stmt, map[string]int) {
	g := &G{t: t, cfg: cfg, Tags: map[string]int{}, loopFactor: 1, topLevel: true}
	g.scopes = [][]*varInfo{nil}
	g.blockIDs = []int{0}
	g.budget = g.intn("budget", 3, cfg.MaxStmts)
	out := []ts.Stmt{}
	if cfg.Tracers {
		out = append(out, TracerPrelude()...)
		// tcount is deliberately not put in scope: only tn() touches it
		for _, n := range []string{"ti", "tb", "ts", "tn"} {
			g.funcs = append(g.funcs, &funcInfo{Name: n, Tracer: true})
		}
	}
	nf := 0
	for g.budget > 0 {
		if cfg.Funcs && nf < cfg.MaxFuncs && g.chance("def-func", 22) {
			fd := g.funcDef()
			out = append(out, g.pending...) // helper definitions the new function relies on
			g.pending = nil
			out = append(out, fd)
			nf++
			continue
		}
		out = append(out, g.stmt(0)...)
	}
	if cfg.DumpGlobal {
		for _, v := range g.scopes[0] {
			if !v.Global {
				continue
			}
			if v.Ty.IsSlice() {
				out = append(out, g.dumpSlice(v)...)
			} else {
				out = append(out, ts.Print{Args: []ts.Expr{ts.StrLit{V: v.Name + "="}, ts.VarRef{Name: v.Name, Ty: v.Ty}}})
			}
		}
	}
	if cfg.ErrSpell {
		out = g.errSpell(out)
	}
	return out, g.Tags
}

// errSpell respells some string types as "error" and some empty string literals as nil: same meaning by the README.
func (g *G) errSpell(in []ts.Stmt) []ts.Stmt {
	rw := &ts.Rewriter{}
	rw.Site = func(e ts.Expr, kind string) (ts.Expr, bool) {
		l, ok := e.(ts.StrLit)
		if !ok || l.V != "" {
			return nil, false
		}
		switch kind {
		case "cmp-left", "cmp-right", "assigned-value", "return-value", "argument", "typed-init", "element-value":
			if g.chance("nil-spelling", 50) {
				g.tag("nil-spelled")
				return ts.StrLit{Nil: true}, true
			}
		}
		return nil, false
	}
	rw.Decl = func(d ts.VarDecl) ts.VarDecl {
		if d.Ty == ts.TString && (d.Form == ts.DeclVarType || d.Form == ts.DeclVarTypeValue) && g.chance("error-spelling", 30) {
			d.Err = true
			g.tag("error-spelled")
		}
		return d
	}
	rw.Func = func(f ts.FuncDef) ts.FuncDef {
		for i := range f.Params {
			if f.Params[i].Ty == ts.TString && g.chance("error-spelling", 30) {
				f.Params[i].Err = true
				g.tag("error-spelled")
			}
		}
		for i, r := range f.Rets {
			if r == ts.TString && g.chance("error-spelling", 40) {
				if f.RetErr == nil {
					f.RetErr = make([]bool, len(f.Rets))
				}
				f.RetErr[i] = true
				g.tag("error-spelled")
			}
		}
		return f
	}
	return rw.Stmts(in)
}
