// Package cmdmodel is an executable model of cmd.exe for the subset of Batch the TypeShell
// converter emits. It implements the rules property C05 names and nothing cleverer:
// parse-time %-expansion per physical line as it is read, run-time !-expansion per command,
// parenthesised blocks read as one command, goto = abandon the block + forward-then-wrap label
// search from the end of the command just read, call/exit /B frames, numeric-vs-string IF
// comparison, 32-bit set /A. Anything outside the modelled subset makes the run inconclusive
// (Unsupported / Unmodelled), never a verdict.
package cmdmodel

import (
	"fmt"
	"regexp"
	"strconv"
	"strings"
)

type Result struct {
	Stdout       string
	Status       int
	Steps        int
	Inconclusive string // "" or class: unsupported:<what> | unmodelled:<what> | stray-paren | step-limit | syntax:<what>
	// events for non-triviality
	GotoOutOfBlock int
	Calls          int
	NumericIfTwoDigit int
}

type abort struct{ class string }

type frame struct{ args []string }

type Model struct {
	lines    []string
	vars     map[string]string
	out      strings.Builder
	steps    int
	MaxSteps int
	res      Result
	depth    int
}

func Run(script string, maxSteps int) (res Result) {
	m := &Model{vars: map[string]string{}, MaxSteps: maxSteps}
	m.lines = strings.Split(strings.ReplaceAll(script, "\r\n", "\n"), "\n")
	defer func() {
		if r := recover(); r != nil {
			if a, ok := r.(abort); ok {
				m.res.Stdout = m.out.String()
				m.res.Steps = m.steps
				m.res.Inconclusive = a.class
				res = m.res
				return
			}
			panic(r)
		}
	}()
	status, _ := m.runFrom(0, &frame{})
	m.res.Stdout = m.out.String()
	m.res.Status = status
	m.res.Steps = m.steps
	return m.res
}

func (m *Model) step() {
	m.steps++
	if m.steps > m.MaxSteps {
		panic(abort{"step-limit"})
	}
}

func (m *Model) get(name string) (string, bool) {
	v, ok := m.vars[strings.ToUpper(name)]
	return v, ok
}

func (m *Model) set(name, val string) {
	k := strings.ToUpper(name)
	if val == "" {
		delete(m.vars, k)
		return
	}
	m.vars[k] = val
}

// ---------------------------------------------------------------- parse-time % expansion

func (m *Model) expandPercent(line string, fr *frame) string {
	var sb strings.Builder
	for i := 0; i < len(line); i++ {
		c := line[i]
		if c != '%' {
			sb.WriteByte(c)
			continue
		}
		if i+1 < len(line) && line[i+1] == '%' {
			sb.WriteByte('%')
			i++
			continue
		}
		if i+1 < len(line) && line[i+1] >= '0' && line[i+1] <= '9' {
			n := int(line[i+1] - '0')
			if n >= 1 && n-1 < len(fr.args) {
				sb.WriteString(fr.args[n-1])
			}
			i++
			continue
		}
		if i+2 < len(line) && line[i+1] == '~' && line[i+2] >= '0' && line[i+2] <= '9' {
			n := int(line[i+2] - '0')
			if n >= 1 && n-1 < len(fr.args) {
				sb.WriteString(strings.Trim(fr.args[n-1], `"`))
			}
			i += 2
			continue
		}
		if i+1 < len(line) && line[i+1] == '*' {
			sb.WriteString(strings.Join(fr.args, " "))
			i++
			continue
		}
		// %name%
		j := strings.IndexByte(line[i+1:], '%')
		if j > 0 {
			name := line[i+1 : i+1+j]
			if reName.MatchString(name) {
				v, _ := m.get(name)
				sb.WriteString(v)
				i += j + 1
				continue
			}
		}
		// a lone % is dropped by the batch parser
	}
	return sb.String()
}

// ---------------------------------------------------------------- run-time ! expansion

var reName = regexp.MustCompile(`^[A-Za-z_][A-Za-z0-9_]*$`)
var reSub = regexp.MustCompile(`^([^:!]+):~(-?[0-9]+)(?:,(-?[0-9]+))?$`)

func (m *Model) expandDelayed(s string) string {
	if !strings.ContainsAny(s, "!^") {
		return s
	}
	var sb strings.Builder
	inQ := false
	for i := 0; i < len(s); i++ {
		c := s[i]
		switch {
		case c == '^' && i+1 < len(s) && s[i+1] == '!':
			sb.WriteByte('!')
			i++
		case c == '^' && !inQ && i+1 < len(s):
			sb.WriteByte(s[i+1])
			i++
		case c == '"':
			inQ = !inQ
			sb.WriteByte(c)
		case c == '!':
			j := strings.IndexByte(s[i+1:], '!')
			if j < 0 {
				continue // unmatched ! disappears
			}
			ref := s[i+1 : i+1+j]
			i += j + 1
			if sm := reSub.FindStringSubmatch(ref); sm != nil {
				v, ok := m.get(sm[1])
				if !ok {
					panic(abort{"unmodelled:substring-of-undefined-variable"})
				}
				start, _ := strconv.Atoi(sm[2])
				if start < 0 {
					start = len(v) + start
					if start < 0 {
						start = 0
					}
				}
				if start > len(v) {
					start = len(v)
				}
				rest := v[start:]
				if sm[3] != "" {
					n, _ := strconv.Atoi(sm[3])
					if n < 0 {
						n = len(rest) + n
						if n < 0 {
							n = 0
						}
					}
					if n < len(rest) {
						rest = rest[:n]
					}
				}
				sb.WriteString(rest)
				continue
			}
			v, _ := m.get(ref)
			sb.WriteString(v)
		default:
			sb.WriteByte(c)
		}
	}
	return sb.String()
}

// ---------------------------------------------------------------- command reader / parser

type node interface{}
type simple struct{ text string }
type block struct{ cmds []node }
type seq struct{ cmds []node }
type ifNode struct {
	not        bool
	kind       string // cmp | defined | exist
	a, op, b   string
	then, els  node
}
type forNode struct {
	v    byte
	in   string
	body node
}

type reader struct {
	m    *Model
	fr   *frame
	next int // next physical line to pull
	buf  string
	pos  int
}

func (r *reader) pull() bool {
	if r.next >= len(r.m.lines) {
		return false
	}
	r.buf += "\n" + r.m.expandPercent(r.m.lines[r.next], r.fr)
	r.next++
	return true
}

func (r *reader) eof() bool { return r.pos >= len(r.buf) }

func (r *reader) skipBlanks() {
	for r.pos < len(r.buf) && (r.buf[r.pos] == ' ' || r.buf[r.pos] == '\t') {
		r.pos++
	}
}

func (r *reader) word() string {
	r.skipBlanks()
	st := r.pos
	for r.pos < len(r.buf) && !strings.ContainsRune(" \t\n()", rune(r.buf[r.pos])) {
		r.pos++
	}
	return r.buf[st:r.pos]
}

func (r *reader) peekWord() string {
	p := r.pos
	w := r.word()
	r.pos = p
	return w
}

func (r *reader) operand() string {
	r.skipBlanks()
	if r.pos < len(r.buf) && r.buf[r.pos] == '"' {
		j := strings.IndexByte(r.buf[r.pos+1:], '"')
		if j < 0 {
			panic(abort{"syntax:unterminated-quote-in-if"})
		}
		s := r.buf[r.pos : r.pos+j+2]
		r.pos += j + 2
		// text glued to the closing quote belongs to the operand
		st := r.pos
		for r.pos < len(r.buf) && !strings.ContainsRune(" \t\n()", rune(r.buf[r.pos])) {
			r.pos++
		}
		return s + r.buf[st:r.pos]
	}
	st := r.pos
	for r.pos < len(r.buf) && !strings.ContainsRune(" \t\n(", rune(r.buf[r.pos])) {
		r.pos++
	}
	return r.buf[st:r.pos]
}

// simpleText reads a simple command up to end of line, an unquoted '&', or (inside parentheses) an unquoted ')'.
func (r *reader) simpleText(inParen bool) (string, byte) {
	st := r.pos
	inQ := false
	for r.pos < len(r.buf) {
		c := r.buf[r.pos]
		switch {
		case c == '^' && r.pos+1 < len(r.buf):
			r.pos += 2
			continue
		case c == '"':
			inQ = !inQ
		case c == '\n':
			return r.buf[st:r.pos], '\n'
		case !inQ && c == '&':
			return r.buf[st:r.pos], '&'
		case !inQ && inParen && c == ')':
			return r.buf[st:r.pos], ')'
		}
		r.pos++
	}
	return r.buf[st:r.pos], 0
}

func (r *reader) command(inParen bool) node {
	r.skipBlanks()
	if r.pos < len(r.buf) && r.buf[r.pos] == '@' {
		r.pos++
	}
	r.skipBlanks()
	if r.eof() {
		return simple{""}
	}
	if r.buf[r.pos] == '(' {
		return r.block()
	}
	lw := strings.ToLower(r.peekWord())
	switch lw {
	case "if":
		r.word()
		return r.ifCmd(inParen)
	case "for":
		r.word()
		return r.forCmd(inParen)
	}
	text, stop := r.simpleText(inParen)
	if stop == '&' {
		r.pos++
		rest := r.command(inParen)
		return seq{[]node{simple{text}, rest}}
	}
	return simple{text}
}

func (r *reader) block() node {
	r.pos++ // (
	b := block{}
	for {
		// skip blanks and line ends
		for r.pos < len(r.buf) && strings.ContainsRune(" \t\n", rune(r.buf[r.pos])) {
			r.pos++
		}
		if r.eof() {
			if !r.pull() {
				panic(abort{"syntax:unbalanced-parenthesis"})
			}
			continue
		}
		if r.buf[r.pos] == ')' {
			r.pos++
			return b
		}
		b.cmds = append(b.cmds, r.command(true))
	}
}

func (r *reader) body(inParen bool) node {
	r.skipBlanks()
	if r.pos < len(r.buf) && r.buf[r.pos] == '(' {
		return r.block()
	}
	return r.command(inParen)
}

func (r *reader) ifCmd(inParen bool) node {
	n := ifNode{kind: "cmp"}
	if strings.ToLower(r.peekWord()) == "not" {
		r.word()
		n.not = true
	}
	switch strings.ToLower(r.peekWord()) {
	case "defined":
		r.word()
		n.kind = "defined"
		n.a = r.word()
	case "exist":
		r.word()
		n.kind = "exist"
		n.a = r.operand()
	default:
		n.a = r.operand()
		n.op = strings.ToLower(r.word())
		if strings.HasPrefix(n.op, "==") && len(n.op) > 2 {
			// a==b without blanks is not emitted
			panic(abort{"unsupported:if-==-glued"})
		}
		n.b = r.operand()
	}
	r.skipBlanks()
	parenThen := r.pos < len(r.buf) && r.buf[r.pos] == '('
	n.then = r.body(inParen)
	if parenThen {
		r.skipBlanks()
		if strings.ToLower(r.peekWord()) == "else" {
			r.word()
			n.els = r.body(inParen)
		}
	}
	return n
}

var reFor = regexp.MustCompile(`(?i)^\s*/f\s+"delims="\s+%([a-zA-Z])\s+in\s+\(`)

func (r *reader) forCmd(inParen bool) node {
	m := reFor.FindStringSubmatch(r.buf[r.pos:])
	if m == nil {
		panic(abort{"unsupported:for-form"})
	}
	r.pos += len(m[0])
	// IN clause up to the closing parenthesis (quoted text only)
	r.skipBlanks()
	if r.pos >= len(r.buf) || r.buf[r.pos] != '"' {
		panic(abort{"unsupported:for-in-not-a-string"})
	}
	j := strings.Index(r.buf[r.pos+1:], `")`)
	if j < 0 {
		panic(abort{"unsupported:for-in-not-a-string"})
	}
	in := r.buf[r.pos+1 : r.pos+1+j]
	r.pos += j + 3
	if strings.ToLower(r.word()) != "do" {
		panic(abort{"syntax:for-without-do"})
	}
	return forNode{v: m[1][0], in: in, body: r.body(inParen)}
}

// readCommand parses the command that starts at physical line pc. Returns the node and the index of the next line.
func (m *Model) readCommand(pc int, fr *frame) (node, int) {
	raw := strings.TrimSpace(m.lines[pc])
	if raw == "(set LF=^" && pc+2 < len(m.lines) && strings.TrimSpace(m.lines[pc+2]) == ")" {
		m.set("LF", "\n")
		return simple{""}, pc + 3
	}
	r := &reader{m: m, fr: fr, next: pc}
	r.pull()
	r.pos = 1 // skip the leading "\n" of the first pulled line
	n := r.command(false)
	// the rest of the last line must be blank
	r.skipBlanks()
	if !r.eof() && r.buf[r.pos] != '\n' {
		if r.buf[r.pos] == ')' {
			panic(abort{"stray-paren"})
		}
		panic(abort{"syntax:trailing-text:" + strings.TrimSpace(r.buf[r.pos:])})
	}
	return n, r.next
}

// ---------------------------------------------------------------- execution

type outcome struct {
	kind  string // "" | goto | exit
	label string
	code  int
}

func (m *Model) findLabel(label string, from int) int {
	label = strings.ToLower(strings.TrimPrefix(label, ":"))
	match := func(i int) bool {
		t := strings.TrimSpace(m.lines[i])
		if !strings.HasPrefix(t, ":") || strings.HasPrefix(t, "::") {
			return false
		}
		name := strings.ToLower(strings.TrimPrefix(t, ":"))
		if k := strings.IndexAny(name, " \t"); k >= 0 {
			name = name[:k]
		}
		return name == label
	}
	for i := from; i < len(m.lines); i++ {
		if match(i) {
			return i
		}
	}
	for i := 0; i < from && i < len(m.lines); i++ {
		if match(i) {
			return i
		}
	}
	return -1
}

// runFrom executes lines from pc in frame fr until exit /B or end of file. Returns (errorlevel, terminated by exit).
func (m *Model) runFrom(pc int, fr *frame) (int, bool) {
	m.depth++
	defer func() { m.depth-- }()
	if m.depth > 60 {
		panic(abort{"unmodelled:call-depth"})
	}
	level := 0
	for pc < len(m.lines) {
		m.step()
		t := strings.TrimSpace(m.lines[pc])
		if t == "" || strings.HasPrefix(t, "::") || (strings.HasPrefix(t, ":") && !strings.HasPrefix(t, "::")) {
			pc++
			continue
		}
		if t == ")" {
			panic(abort{"stray-paren"})
		}
		n, next := m.readCommand(pc, fr)
		o := m.exec(n, fr, false)
		switch o.kind {
		case "goto":
			if strings.EqualFold(strings.TrimPrefix(o.label, ":"), "eof") {
				return level, true
			}
			tgt := m.findLabel(o.label, next)
			if tgt < 0 {
				panic(abort{"syntax:label-not-found:" + o.label})
			}
			pc = tgt + 1
		case "exit":
			return o.code, true
		default:
			pc = next
		}
	}
	return level, false
}

func (m *Model) exec(n node, fr *frame, inBlock bool) outcome {
	m.step()
	switch x := n.(type) {
	case simple:
		return m.execSimple(x.text, fr, inBlock)
	case seq:
		for _, c := range x.cmds {
			if o := m.exec(c, fr, inBlock); o.kind != "" {
				return o
			}
		}
	case block:
		for _, c := range x.cmds {
			if o := m.exec(c, fr, true); o.kind != "" {
				if o.kind == "goto" {
					m.res.GotoOutOfBlock++
				}
				return o
			}
		}
	case ifNode:
		if m.cond(x) != x.not {
			return m.exec(x.then, fr, inBlock)
		} else if x.els != nil {
			return m.exec(x.els, fr, inBlock)
		}
	case forNode:
		text := m.expandDelayed(x.in)
		if text == "" || strings.HasPrefix(text, ";") {
			return outcome{}
		}
		if strings.Contains(text, "\n") {
			panic(abort{"unmodelled:for-over-multi-line-text"})
		}
		return m.exec(substFor(x.body, x.v, text), fr, inBlock)
	}
	return outcome{}
}

func substFor(n node, v byte, val string) node {
	pat := "%" + string(v)
	switch x := n.(type) {
	case simple:
		return simple{strings.ReplaceAll(x.text, pat, val)}
	case seq:
		out := seq{}
		for _, c := range x.cmds {
			out.cmds = append(out.cmds, substFor(c, v, val))
		}
		return out
	case block:
		out := block{}
		for _, c := range x.cmds {
			out.cmds = append(out.cmds, substFor(c, v, val))
		}
		return out
	case ifNode:
		x.a, x.b = strings.ReplaceAll(x.a, pat, val), strings.ReplaceAll(x.b, pat, val)
		x.then = substFor(x.then, v, val)
		if x.els != nil {
			x.els = substFor(x.els, v, val)
		}
		return x
	}
	return n
}

var reNum = regexp.MustCompile(`^[+-]?[0-9]+$`)

func (m *Model) cond(x ifNode) bool {
	switch x.kind {
	case "defined":
		_, ok := m.get(m.expandDelayed(x.a))
		return ok
	case "exist":
		panic(abort{"unsupported:if-exist"})
	}
	a, b := m.expandDelayed(x.a), m.expandDelayed(x.b)
	if a == "" || b == "" {
		panic(abort{"syntax:empty-if-operand"})
	}
	op := x.op
	if op == "==" {
		return a == b
	}
	if reNum.MatchString(a) && reNum.MatchString(b) {
		ia, ea := strconv.ParseInt(a, 10, 64)
		ib, eb := strconv.ParseInt(b, 10, 64)
		if ea != nil || eb != nil || ia > 2147483647 || ia < -2147483648 || ib > 2147483647 || ib < -2147483648 {
			panic(abort{"unmodelled:number-beyond-32-bit"})
		}
		if len(strings.TrimLeft(a, "+-")) >= 2 || len(strings.TrimLeft(b, "+-")) >= 2 {
			m.res.NumericIfTwoDigit++
		}
		switch op {
		case "equ":
			return ia == ib
		case "neq":
			return ia != ib
		case "lss":
			return ia < ib
		case "leq":
			return ia <= ib
		case "gtr":
			return ia > ib
		case "geq":
			return ia >= ib
		}
	}
	c := strings.Compare(a, b)
	switch op {
	case "equ":
		return c == 0
	case "neq":
		return c != 0
	case "lss":
		return c < 0
	case "leq":
		return c <= 0
	case "gtr":
		return c > 0
	case "geq":
		return c >= 0
	}
	panic(abort{"unsupported:if-operator:" + op})
}

func splitArgs(s string) []string {
	args := []string{}
	var cur strings.Builder
	inQ := false
	has := false
	for i := 0; i < len(s); i++ {
		c := s[i]
		switch {
		case c == '"':
			inQ = !inQ
			cur.WriteByte(c)
			has = true
		case !inQ && (c == ' ' || c == '\t' || c == ',' || c == ';' || c == '='):
			if has {
				args = append(args, cur.String())
				cur.Reset()
				has = false
			}
		default:
			cur.WriteByte(c)
			has = true
		}
	}
	if has {
		args = append(args, cur.String())
	}
	return args
}

func (m *Model) execSimple(text string, fr *frame, inBlock bool) outcome {
	t := strings.TrimSpace(text)
	if t == "" {
		return outcome{}
	}
	lower := strings.ToLower(t)
	switch {
	case strings.HasPrefix(t, ":"), lower == "rem", strings.HasPrefix(lower, "rem "), lower == "setlocal", strings.HasPrefix(lower, "setlocal "), lower == "endlocal":
		return outcome{}
	case lower == "echo off" || lower == "echo on":
		return outcome{}
	case strings.HasPrefix(lower, "goto "):
		return outcome{kind: "goto", label: strings.TrimSpace(m.expandDelayed(t[5:]))}
	case strings.HasPrefix(lower, "exit /b"):
		rest := strings.TrimSpace(m.expandDelayed(t[7:]))
		code := 0
		if rest != "" {
			c, err := strconv.Atoi(rest)
			if err != nil {
				panic(abort{"syntax:exit-code:" + rest})
			}
			code = c
		}
		return outcome{kind: "exit", code: code}
	case strings.HasPrefix(lower, "call :"):
		m.res.Calls++
		args := splitArgs(m.expandDelayed(t[5:]))
		label := args[0]
		tgt := m.findLabel(label, 0)
		if tgt < 0 {
			panic(abort{"syntax:label-not-found:" + label})
		}
		m.runFrom(tgt+1, &frame{args: args[1:]})
		return outcome{}
	case strings.HasPrefix(lower, "call "):
		panic(abort{"unsupported:call-program"})
	case strings.HasPrefix(lower, "set /a "):
		m.setA(m.expandDelayed(strings.TrimSpace(t[7:])))
		return outcome{}
	case strings.HasPrefix(lower, "set /p"):
		panic(abort{"unsupported:set-/p"})
	case strings.HasPrefix(lower, "set "):
		rest := t[4:]
		rest = m.expandDelayed(rest)
		rest = strings.TrimLeft(rest, " ")
		if strings.HasPrefix(rest, `"`) {
			// set "name=value": up to the last quote
			k := strings.LastIndexByte(rest, '"')
			if k <= 0 {
				k = len(rest)
			}
			rest = rest[1:k]
		}
		eq := strings.IndexByte(rest, '=')
		if eq <= 0 {
			panic(abort{"unsupported:set-without-assignment"})
		}
		m.set(rest[:eq], rest[eq+1:])
		return outcome{}
	case strings.HasPrefix(lower, "echo("):
		// "echo(" prints its text verbatim, also when it is empty, blank or on/off
		m.out.WriteString(m.expandDelayed(t[5:]) + "\n")
		return outcome{}
	case lower == "echo." || lower == "echo:":
		m.out.WriteString("\n")
		return outcome{}
	case lower == "echo":
		m.out.WriteString("ECHO is off.\n")
		return outcome{}
	case strings.HasPrefix(lower, "echo "):
		// the text follows the single separator character
		arg := m.expandDelayed(t[5:])
		if strings.TrimSpace(arg) == "" {
			m.out.WriteString("ECHO is off.\n")
			return outcome{}
		}
		switch strings.ToLower(strings.TrimSpace(arg)) {
		case "on", "off":
			return outcome{} // mode switch, prints nothing
		case "/?":
			panic(abort{"unmodelled:echo-help-switch"})
		}
		m.out.WriteString(arg + "\n")
		return outcome{}
	}
	panic(abort{"unsupported:command:" + firstWord(t)})
}

func firstWord(s string) string {
	if k := strings.IndexAny(s, " \t"); k > 0 {
		return s[:k]
	}
	return s
}

// ---------------------------------------------------------------- set /A (32-bit)

type aparser struct {
	m   *Model
	s   string
	pos int
}

func (m *Model) setA(expr string) {
	expr = strings.TrimSpace(expr)
	if strings.HasPrefix(expr, `"`) && strings.HasSuffix(expr, `"`) && len(expr) >= 2 {
		expr = expr[1 : len(expr)-1]
	}
	eq := strings.IndexByte(expr, '=')
	if eq <= 0 {
		panic(abort{"unsupported:set-/a-form"})
	}
	name := strings.TrimSpace(expr[:eq])
	p := &aparser{m: m, s: expr[eq+1:]}
	v := p.sum()
	p.ws()
	if p.pos != len(p.s) {
		panic(abort{"syntax:set-/a:" + expr})
	}
	m.vars[strings.ToUpper(name)] = strconv.Itoa(int(v))
}

func (p *aparser) ws() {
	for p.pos < len(p.s) && (p.s[p.pos] == ' ' || p.s[p.pos] == '\t') {
		p.pos++
	}
}

func (p *aparser) sum() int32 {
	v := p.term()
	for {
		p.ws()
		if p.pos >= len(p.s) {
			return v
		}
		switch p.s[p.pos] {
		case '+':
			p.pos++
			v += p.term()
		case '-':
			p.pos++
			v -= p.term()
		default:
			return v
		}
	}
}

func (p *aparser) term() int32 {
	v := p.unary()
	for {
		p.ws()
		if p.pos >= len(p.s) {
			return v
		}
		switch p.s[p.pos] {
		case '*':
			p.pos++
			v *= p.unary()
		case '/':
			p.pos++
			d := p.unary()
			if d == 0 {
				panic(abort{"unmodelled:division-by-zero"})
			}
			if v == -2147483648 && d == -1 {
				panic(abort{"unmodelled:int-min-div-minus-one"})
			}
			v /= d
		case '%':
			p.pos++
			d := p.unary()
			if d == 0 {
				panic(abort{"unmodelled:division-by-zero"})
			}
			if d == -1 {
				v = 0
			} else {
				v %= d
			}
		default:
			return v
		}
	}
}

func (p *aparser) unary() int32 {
	p.ws()
	if p.pos < len(p.s) {
		switch p.s[p.pos] {
		case '-':
			p.pos++
			return -p.unary()
		case '+':
			p.pos++
			return p.unary()
		case '(':
			p.pos++
			v := p.sum()
			p.ws()
			if p.pos >= len(p.s) || p.s[p.pos] != ')' {
				panic(abort{"syntax:set-/a-parenthesis"})
			}
			p.pos++
			return v
		}
	}
	st := p.pos
	for p.pos < len(p.s) && (p.s[p.pos] >= '0' && p.s[p.pos] <= '9') {
		p.pos++
	}
	if p.pos > st {
		lit := p.s[st:p.pos]
		if len(lit) > 1 && lit[0] == '0' {
			panic(abort{"unmodelled:octal-literal"})
		}
		n, err := strconv.ParseInt(lit, 10, 64)
		if err != nil || n > 2147483648 {
			panic(abort{"unmodelled:number-beyond-32-bit"})
		}
		return int32(n)
	}
	// bare variable name
	for p.pos < len(p.s) && (p.s[p.pos] == '_' || (p.s[p.pos] >= 'a' && p.s[p.pos] <= 'z') || (p.s[p.pos] >= 'A' && p.s[p.pos] <= 'Z') || (p.pos > st && p.s[p.pos] >= '0' && p.s[p.pos] <= '9')) {
		p.pos++
	}
	if p.pos > st {
		v, _ := p.m.get(p.s[st:p.pos])
		n, _ := strconv.ParseInt(strings.TrimSpace(v), 10, 64)
		return int32(n)
	}
	// an empty operand (undefined variable expanded to nothing) counts as 0 only before a sign, otherwise it is a syntax error
	panic(abort{"syntax:set-/a-missing-operand:" + fmt.Sprintf("%q", p.s)})
}
