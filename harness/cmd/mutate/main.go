// mutate — developer tool (sensitivity measurement, not a registered check).
// Enumerates first-order mutations of Go source files by text position and applies one of them.
//
//	mutate -list  file.go...            prints "<file>#<n> <line> <operator> <before> -> <after>" for every candidate
//	mutate -apply <file>#<n>            rewrites that file in place with candidate n applied
//
// Operators: relational/arithmetic/logical operator swap, negated if-condition, dropped statement,
// integer literal +1, return-early removal (an if whose body only returns/continues/breaks has its condition forced false).
package main

import (
	"flag"
	"fmt"
	"go/ast"
	"go/parser"
	"go/token"
	"os"
	"strings"
)

type mutation struct {
	start, end int // byte offsets
	repl       string
	op         string
	line       int
}

var swaps = map[token.Token][]string{
	token.EQL: {"!="}, token.NEQ: {"=="}, token.LSS: {"<="}, token.LEQ: {"<"}, token.GTR: {">="}, token.GEQ: {">"},
	token.ADD: {"-"}, token.SUB: {"+"}, token.LAND: {"||"}, token.LOR: {"&&"},
}

func collect(path string) ([]mutation, []byte, error) {
	src, err := os.ReadFile(path)
	if err != nil {
		return nil, nil, err
	}
	fset := token.NewFileSet()
	f, err := parser.ParseFile(fset, path, src, 0)
	if err != nil {
		return nil, nil, err
	}
	off := func(p token.Pos) int { return fset.Position(p).Offset }
	var ms []mutation
	add := func(s, e token.Pos, repl, op string) {
		ms = append(ms, mutation{off(s), off(e), repl, op, fset.Position(s).Line})
	}
	onlyJumps := func(b *ast.BlockStmt) bool {
		if len(b.List) == 0 {
			return false
		}
		switch b.List[len(b.List)-1].(type) {
		case *ast.ReturnStmt, *ast.BranchStmt:
			return true
		}
		return false
	}
	ast.Inspect(f, func(n ast.Node) bool {
		switch x := n.(type) {
		case *ast.BinaryExpr:
			// string concatenation: "+" -> "-" would not compile; harmless (discarded by the build)
			for _, r := range swaps[x.Op] {
				add(x.OpPos, x.OpPos+token.Pos(len(x.Op.String())), r, "swap "+x.Op.String())
			}
		case *ast.IfStmt:
			add(x.Cond.Pos(), x.Cond.End(), "!("+string(src[off(x.Cond.Pos()):off(x.Cond.End())])+")", "negate-if")
			if onlyJumps(x.Body) && x.Else == nil {
				add(x.Cond.Pos(), x.Cond.End(), "false && ("+string(src[off(x.Cond.Pos()):off(x.Cond.End())])+")", "never-if")
			}
		case *ast.BlockStmt:
			for _, s := range x.List {
				switch st := s.(type) {
				case *ast.ExprStmt:
					add(st.Pos(), st.End(), "", "drop-call")
				case *ast.AssignStmt:
					if st.Tok != token.DEFINE {
						add(st.Pos(), st.End(), "", "drop-assign")
					}
				case *ast.IncDecStmt:
					add(st.Pos(), st.End(), "", "drop-incdec")
				}
			}
		case *ast.CaseClause:
			for _, s := range x.Body {
				switch st := s.(type) {
				case *ast.ExprStmt:
					add(st.Pos(), st.End(), "", "drop-call")
				case *ast.AssignStmt:
					if st.Tok != token.DEFINE {
						add(st.Pos(), st.End(), "", "drop-assign")
					}
				}
			}
		case *ast.BasicLit:
			if x.Kind == token.INT && !strings.HasPrefix(x.Value, "0x") {
				add(x.Pos(), x.End(), "("+x.Value+"+1)", "int+1")
			}
		}
		return true
	})
	return ms, src, nil
}

func main() {
	list := flag.Bool("list", false, "list candidates")
	apply := flag.String("apply", "", "file#n")
	flag.Parse()
	if *list {
		for _, p := range flag.Args() {
			ms, src, err := collect(p)
			if err != nil {
				fmt.Fprintln(os.Stderr, err)
				os.Exit(2)
			}
			for i, m := range ms {
				before := strings.ReplaceAll(string(src[m.start:m.end]), "\n", " ")
				if len(before) > 60 {
					before = before[:60] + "…"
				}
				after := m.repl
				if len(after) > 60 {
					after = after[:60] + "…"
				}
				fmt.Printf("%s#%d\t%d\t%s\t%s -> %s\n", p, i, m.line, m.op, before, strings.ReplaceAll(after, "\n", " "))
			}
		}
		return
	}
	if *apply != "" {
		k := strings.LastIndex(*apply, "#")
		path := (*apply)[:k]
		var n int
		fmt.Sscanf((*apply)[k+1:], "%d", &n)
		ms, src, err := collect(path)
		if err != nil || n >= len(ms) {
			fmt.Fprintln(os.Stderr, "bad mutation id", err)
			os.Exit(2)
		}
		m := ms[n]
		out := string(src[:m.start]) + m.repl + string(src[m.end:])
		if err := os.WriteFile(path, []byte(out), 0o644); err != nil {
			fmt.Fprintln(os.Stderr, err)
			os.Exit(2)
		}
		return
	}
	flag.Usage()
	os.Exit(2)
}
